"""Regenerate the seeded-change table of DESIGN.md (section 0.6) from seeded/*/meta.json and patch.diff.
usage: python -m harness.seedtable            (rewrites the table between the markers in DESIGN.md)"""
import glob
import json
import os
import re

VERIF = os.path.dirname(os.path.dirname(os.path.abspath(__file__)))
BEGIN = '| seeded change | touches | caught by (clauses) | also run, silent |'


def rows():
  out = []
  for d in sorted(glob.glob(os.path.join(VERIF, 'seeded', '*'))):
    mp = os.path.join(d, 'meta.json')
    if not os.path.exists(mp):
      continue
    m = json.load(open(mp))
    files = sorted(set(re.findall(r'^\+\+\+ b/scales/(\S+)', open(os.path.join(d, 'patch.diff')).read(), re.M)))
    caught, silent = [], []
    for p, r in sorted(m.get('checks', {}).items()):
      if r.get('rc') == 1:
        cl = sorted(set(c.split('.', 1)[1] for c in r.get('clauses', []) if c.startswith(p + '.')))
        caught.append('%s (%s)' % (p, ', '.join(cl)) if cl else p)
      elif r.get('rc') == 0:
        silent.append(p)
      else:
        silent.append('%s (rc %s)' % (p, r.get('rc')))
    ok = (m.get('patch_applies') and m.get('tests_passed') == 52 and not m.get('tests_failed')
          and m.get('demo_unpatched_rc') == 0 and m.get('demo_patched_rc') not in (0, None))
    tail = '' if ok else ' (not confirmed)'
    if m.get('neutralised_by_fix'):
      tail = ' (neutralised by fix %s: demo passes with the rebased patch)' % m['neutralised_by_fix']
    if m.get('reason_uncaught') and not caught:
      tail += ' ' + m['reason_uncaught']
    out.append('| %s | %s | %s | %s |%s' % (os.path.basename(d), ', '.join(files), '; '.join(caught) or '**none**',
                                           ', '.join(silent), tail))
  return out


def main():
  p = os.path.join(VERIF, 'DESIGN.md')
  s = open(p).read()
  i = s.index(BEGIN)
  j = s.index('\n\n', i)
  table = BEGIN + '\n|---|---|---|---|\n' + '\n'.join(rows())
  open(p, 'w').write(s[:i] + table + s[j:])
  print('%d rows' % len(rows()))


if __name__ == '__main__':
  main()
