import sys, json
sys.path.insert(0,'/verif')
from harness import common, tlc
from harness.engines import transport as R
# two answered tags; stall; req3 blocks in write, req4 queued with a recycled tag; the peer duplicates a reply naming req4's tag; req5
steps=[['open'],['adv',20],['req',1,0],['req',2,0],['adv',10],['reply',0],['reply',0],['adv',10],
       ['stall',300],['req',3,0],['req',4,0],['adv',10],['frame',-2,2],['frame',-2,3],['adv',10],['req',5,0],['req',6,0],['adv',400],
       ['reply',0],['reply',0],['reply',0],['reply',0],['adv',50]]
c={'kind':'mux','fault_at':{},'plans':[['ok',0]],'steps':steps,'rseed':1}
res=common.run_forked(R.run_case,[c])
print(res[0].get('err'))
t=res[0]['ok']
for e in t['ev']: print(e)
r,v=tlc.validate_traces(R.TRACE_MODULE,R.TRACE_CFG,[{'cfg':t['cfg'],'ev':t['ev']}],extra_env={'PROP':'C11'})
print(v)
