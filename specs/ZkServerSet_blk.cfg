SPECIFICATION Spec
CONSTANTS
  Names = {1, 2}
  NValues = 2
  MaxEnv = 6
  MaxInc = 2
  MaxRaise = 1
  MaxBlock = 1
INVARIANT NoViolation
INVARIANT Structural
INVARIANT Bounded
VIEW View
CHECK_DEADLOCK FALSE
