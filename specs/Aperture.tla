------------------------------ MODULE Aperture ------------------------------
(***************************************************************************)
(* Code-shaped model of scales/loadbalancer/aperture.py                     *)
(* ApertureBalancerSink (C06) on top of an abstracted HeapBalancerSink.     *)
(*                                                                         *)
(* Heap abstraction: the array is a set `act`; "heap[1]" is any member of   *)
(* minimal (down-mark, load); "first closed / first non-pending node in     *)
(* array order" is any such node.  Everything else follows the code:        *)
(*   __Get        resurrect down nodes whose channel is Open; take the top; *)
(*                if it is not Open and not yet marked down: mark it down,  *)
(*                _OnNodeDown (expand unless the channel is Idle), repeat   *)
(*   _AddSink     heap iff healthy < min_size else idle (healthy = channel  *)
(*                state <= Busy, Idle counts)                               *)
(*   _RemoveSink  base removal, then _TryExpandAperture, then idle.discard  *)
(*   _TryExpandAperture(leave_pending)  random idle endpoint -> pending,    *)
(*                base _AddSink (new channel, Open() in flight); pending is *)
(*                discarded by a continuation of the *unwrapped* open       *)
(*                result, which - when the open fails - is chained behind   *)
(*                the open of the replacement chosen by _OnNodeDown         *)
(*   _ContractAperture(force)  blocked by pending unless forced; needs      *)
(*                healthy > min_size; first closed non-pending node else    *)
(*                first non-pending node                                    *)
(*   _AdjustAperture(+1/-1)  total, EMA, control law                        *)
(*   _Jitter      expand(leave_pending), wait for the open, forced contract,*)
(*                pending.discard, reschedule                               *)
(* The EMA is abstract: an update yields any value between the previous     *)
(* value and the sample (mode "any"); in the steady-traffic specification   *)
(* a sample taken after time has passed moves strictly closer (mode         *)
(* "strict") and one taken at the same instant leaves it unchanged ("same").*)
(* The first update sets the average to the sample (scales.varz.Ema).       *)
(*                                                                         *)
(* gevent: completions of an Open() result run as hub callbacks; one task   *)
(* per callback that touches balancer state:                                *)
(*   T1  _OnOpenNodeComplete (failure -> _OnNodeDown -> maybe expansion,    *)
(*       whose unwrapped result the current one is chained behind)          *)
(*   T3  links of an unwrapped result: pending.discard / jitter resumption; *)
(*       a chained result is set there and its links run one callback later *)
(* API calls (Dispatch, Put, Join, Leave) and environment events (channel   *)
(* flips, open completions, the jitter timer) land between any two tasks.   *)
(*                                                                         *)
(* The property-level machine ApertureAbs runs in lock-step on `ab` with    *)
(* t = 0 (time-dependent parts are checked on real traces, and as the       *)
(* temporal property Settles of SteadySpec here); `viol` keeps the first    *)
(* failing clause.  A quiescent point is implicit whenever the run queue    *)
(* is empty (the drivers emit Q exactly there).                             *)
(***************************************************************************)
EXTENDS ApertureAbs, SequencesExt

CONSTANTS Members,    \* endpoints (integers)
          Initial,    \* initial server set
          MinSize, MaxSize,
          MinL, MaxL, \* band in units of 1/SC
          SC,         \* scale of the average
          MaxOut,     \* bound on outstanding requests
          MaxOpens,   \* bound on Open() results in flight
          Jitter,     \* BOOLEAN: jitter rounds enabled
          FlipStates, \* channel states the environment may force on an active member
          Dynamic,    \* BOOLEAN: joins / leaves / channel flips / failing opens enabled
          EnvBudget,  \* number of such environment events in one behaviour (finite by construction)
          SteadyK,    \* steady specification: outstanding level
          ChurnGetFirst \* steady specification: churn order

VARIABLES st, viol
vars == <<st, ab, acfg, viol>>

Cfg == [minS |-> MinSize, maxS |-> MaxSize, minL |-> MinL, maxL |-> MaxL, sc |-> SC,
        win |-> 1, tol |-> 0, btol |-> 0, ref |-> 0, rtol |-> 0]

\* the configuration is read from acfg (= Cfg in model checking, the trace's cfg in ApertureTrace)
MnS == acfg.minS
MxS == acfg.maxS
MnL == acfg.minL
MxL == acfg.maxL
Sc == acfg.sc

Size(s) == Cardinality(s.act)
Healthy(s) == Cardinality({e \in s.act : s.ch[e] # "Closed"})
OpenIds(s) == {o.id : o \in s.opens}
MinOf(X) == CHOOSE x \in X : \A y \in X : x <= y

NoStage == <<>>
Stage(d, j) == [disc |-> d, jit |-> j]

\* ---------------------------------------------------------------- node add / remove
AddNode(s, e, stages) ==
  LET free == (1..MaxOpens) \ OpenIds(s)
      id == IF free = {} THEN 0 ELSE MinOf(free)
  IN [s EXCEPT !.act = @ \cup {e}, !.ch[e] = "Idle", !.dn[e] = FALSE, !.ld[e] = 0,
               !.overflow = @ \/ free = {},
               !.opens = @ \cup {[id |-> id, ep |-> e, live |-> TRUE, stages |-> stages]}]

\* base _RemoveSink: outstanding requests of the node keep draining (each Put still adjusts)
RemoveNode(s, v) ==
  [s EXCEPT !.act = @ \ {v}, !.drain = @ + s.ld[v], !.ld[v] = 0, !.dn[v] = FALSE, !.ch[v] = "Idle",
            !.opens = {IF o.ep = v /\ o.live THEN [o EXCEPT !.live = FALSE] ELSE o : o \in @}]

\* _TryExpandAperture: set of successor states (random.choice); `more` = stages chained behind
TryExpand(s, jit, more) ==
  IF s.idle = {} THEN {s}
  ELSE { AddNode([s EXCEPT !.idle = @ \ {e}, !.pend = @ \cup {e}, !.jep = IF jit THEN e ELSE @], e,
                 <<Stage(IF jit THEN {} ELSE {e}, jit)>> \o more) : e \in s.idle }

ContractSet(s, force) ==
  IF s.pend # {} /\ ~force THEN {s}
  ELSE IF Healthy(s) > MnS
  THEN LET closed == {e \in s.act : s.ch[e] = "Closed" /\ e \notin s.pend}
           cand == IF closed # {} THEN closed ELSE {e \in s.act : e \notin s.pend}
       IN IF cand = {} THEN {s}
          ELSE { RemoveNode([s EXCEPT !.idle = @ \cup {v}], v) : v \in cand }
  ELSE {s}

\* ---------------------------------------------------------------- __Get
Resurrect(s) ==
  [s EXCEPT !.dn = [e \in Members |-> IF e \in s.act /\ s.dn[e] /\ s.ch[e] = "Open" THEN FALSE ELSE s.dn[e]]]

Tops(s) ==
  LET up == {e \in s.act : ~s.dn[e]}
      pool == IF up # {} THEN up ELSE s.act
  IN {e \in pool : \A f \in pool : s.ld[e] <= s.ld[f]}

RECURSIVE GetSet(_)
GetSet(s0) ==
  LET s == Resurrect(s0) IN
  UNION { IF s.ch[n] = "Open" \/ s.dn[n]
          THEN {[s |-> s, n |-> n]}
          ELSE LET s1 == [s EXCEPT !.dn[n] = TRUE]
                   exp == IF s1.ch[n] # "Idle" THEN TryExpand(s1, FALSE, NoStage) ELSE {s1}
               IN UNION {GetSet(s2) : s2 \in exp}
        : n \in Tops(s) }

\* ---------------------------------------------------------------- _AdjustAperture
EmaSet(s, X, mode) ==
  IF ~s.einit THEN {X}
  ELSE IF mode = "same" THEN {s.avg}
  ELSE IF mode = "strict" THEN IF s.avg = X THEN {X}
                               ELSE IF s.avg < X THEN (s.avg + 1)..X ELSE X..(s.avg - 1)
  ELSE Min2(s.avg, X)..Max2(s.avg, X)

\* set of [s, obs, lo, hi, sB, iB, hB, avg].  P(v) filters the admissible new averages and Hi(v) is the
\* upper companion of v (model checking: all, v itself; trace validation: the recorded floor / ceiling of
\* the real average, so that ">= max" is decided on the floor and "<= min" on the ceiling, exactly).
AdjustSetP(s, k, mode, P(_), Hi(_)) ==
  LET tot == s.total + k
      X == tot * Sc
  IN UNION {
       LET s1 == [s EXCEPT !.total = tot, !.avg = v, !.einit = TRUE]
           size == Size(s1)
           res == IF size = 0
                  THEN IF s1.idle # {} /\ 0 < MxS THEN TryExpand(s1, FALSE, NoStage) ELSE {s1}
                  ELSE IF v >= MxL * size /\ s1.idle # {} /\ size < MxS THEN TryExpand(s1, FALSE, NoStage)
                  ELSE IF Hi(v) <= MnL * size /\ size > MnS THEN ContractSet(s1, FALSE)
                  ELSE {s1}
           dv == IF size = 0 THEN 1 ELSE size
       IN { [s |-> x, obs |-> size > 0, lo |-> v \div dv, hi |-> (Hi(v) + dv - 1) \div dv, sB |-> size,
             iB |-> Cardinality(s1.idle), hB |-> Healthy(s1), avg |-> v] : x \in res }
     : v \in {w \in EmaSet(s, X, mode) : P(w)} }

AdjustSet(s, k, mode) == AdjustSetP(s, k, mode, LAMBDA v : TRUE, LAMBDA v : v)

\* ---------------------------------------------------------------- the API calls / events as set-valued operators
\* (shared by the actions below and by the implementation-trace spec ApertureTrace)
DispatchSetP(s, P(_), Hi(_)) ==
  UNION { {[mid |-> g.s, r |-> r] : r \in AdjustSetP([g.s EXCEPT !.ld[g.n] = @ + 1], 1, "any", P, Hi)} : g \in GetSet(s) }
PutSetP(s, e, P(_), Hi(_)) == AdjustSetP([s EXCEPT !.ld[e] = @ - 1], -1, "any", P, Hi)
PutDrainSetP(s, P(_), Hi(_)) == AdjustSetP([s EXCEPT !.drain = @ - 1], -1, "any", P, Hi)

JoinRes(s, e) ==
  LET s1 == [s EXCEPT !.S = @ \cup {e}]
  IN IF Healthy(s1) < MnS THEN AddNode(s1, e, NoStage) ELSE [s1 EXCEPT !.idle = @ \cup {e}]

LeaveSet(s, e) ==
  LET s1 == [s EXCEPT !.S = @ \ {e}]
      exps == IF e \in s1.act THEN TryExpand(RemoveNode(s1, e), FALSE, NoStage) ELSE {s1}
  IN { [x EXCEPT !.idle = @ \ {e}] : x \in exps }

Task(k, ok, stages) == [k |-> k, ok |-> ok, stages |-> stages]

OpenDoneRes(s, o, ok) ==
  LET s1 == [s EXCEPT !.opens = @ \ {o}, !.runq = Append(@, Task("T1", ok, o.stages))]
  IN IF o.live THEN [s1 EXCEPT !.ch[o.ep] = IF ok THEN "Open" ELSE "Closed"] ELSE s1

\* jitter timer fires: _Jitter up to ar.wait()
JitterSet(s) == { [x EXCEPT !.jpc = "waiting"] : x \in TryExpand(s, TRUE, NoStage) }

\* hub callbacks
RunT1(task, s0) ==
  IF task.ok
  THEN {IF task.stages = <<>> THEN s0 ELSE [s0 EXCEPT !.runq = Append(@, Task("T3", TRUE, task.stages))]}
  ELSE \* _OnNodeDown: the failed channel is Closed (not Idle): expand; the result chains behind the new open
       IF s0.idle = {}
       THEN {IF task.stages = <<>> THEN s0 ELSE [s0 EXCEPT !.runq = Append(@, Task("T3", TRUE, task.stages))]}
       ELSE TryExpand(s0, FALSE, task.stages)

RunT3(task, s0) ==
  LET stg == Head(task.stages)
      s1 == [s0 EXCEPT !.pend = @ \ stg.disc]
      s2s == IF stg.jit
             THEN { [x EXCEPT !.pend = @ \ {s0.jep}, !.jpc = "idle", !.jep = 0] : x \in ContractSet(s1, TRUE) }
             ELSE {s1}
      rest == Tail(task.stages)
  IN { IF rest = <<>> THEN x ELSE [x EXCEPT !.runq = Append(@, Task("T3", TRUE, rest))] : x \in s2s }

RunOneSet(s) ==
  LET task == Head(s.runq)
      s0 == [s EXCEPT !.runq = Tail(@)]
  IN IF task.k = "T1" THEN RunT1(task, s0) ELSE RunT3(task, s0)

\* ---------------------------------------------------------------- Abs bookkeeping
Note(chk) == viol' = IF viol = "ok" THEN chk ELSE viol
GA(s) == Size(s)
GI(s) == Cardinality(s.idle)
\* implicit quiescent point
AbQ == IF st.runq = <<>> THEN [ab EXCEPT !.settling = {}] ELSE ab
\* opening = the opens in flight; settling is non-empty exactly while completions are being processed
\* (canonical representative {0}: which opens completed is irrelevant to every clause)
WithOpens(a, s) == [a EXCEPT !.opening = OpenIds(s), !.settling = IF s.runq = <<>> THEN {} ELSE {0}]

\* a get/put: sBefore = state at the instant of the sample's publication as far as opens go
SampleStep(sMid, r, k) ==
  LET abm == WithOpens(AbQ, sMid)
      ev == [k |-> k, t |-> 0, u |-> 0, ref |-> NoRef, lo |-> r.lo, hi |-> r.hi, sB |-> r.sB, iB |-> r.iB, hB |-> r.hB,
             avg |-> r.avg, a |-> GA(r.s), i |-> GI(r.s)]
  IN IF r.obs
     THEN /\ Note(SampleCheck(abm, ev))
          /\ ab' = WithOpens(SampleUpd(abm, ev), r.s)
     ELSE /\ Note(BlindCheck(abm, k, 0, 0, GA(r.s), GI(r.s)))
          /\ ab' = WithOpens(BlindUpd(abm, k, 0, 0, GA(r.s), GI(r.s)), r.s)

PlainStep(s2) ==
  /\ Note(PlainCheck(AbQ, 0, GA(s2), GI(s2)))
  /\ ab' = WithOpens(PlainUpd(AbQ, 0, GA(s2), GI(s2)), s2)

\* ---------------------------------------------------------------- initial state
InitState(S, act, chf) ==
  [S |-> S, act |-> act, ch |-> chf, dn |-> [e \in Members |-> FALSE], ld |-> [e \in Members |-> 0],
   drain |-> 0, idle |-> S \ act, pend |-> {}, total |-> 0, avg |-> 0, einit |-> FALSE,
   opens |-> {}, runq |-> <<>>, jpc |-> "idle", jep |-> 0, overflow |-> FALSE, env |-> EnvBudget]

\* after the open sequence: the first min_size members (healthy < min_size while adding) are in the
\* heap with their initial opens completed (Open or Closed); the rest is idle.
Init ==
  /\ \E act \in SUBSET Initial :
       /\ Cardinality(act) = Min2(MinSize, Cardinality(Initial))
       /\ \E bad \in SUBSET act :
            /\ Dynamic \/ bad = {}
            /\ st = InitState(Initial, act, [e \in Members |-> IF e \in act THEN (IF e \in bad THEN "Closed" ELSE "Open") ELSE "Idle"])
  /\ AInit(Cfg, Initial, Size(st), GI(st), 0)
  /\ viol = "ok"

\* ---------------------------------------------------------------- API calls
All(v) == TRUE
Same(v) == v

Dispatch ==
  /\ Size(st) > 0 /\ st.total < MaxOut
  /\ \E d \in DispatchSetP(st, All, Same) :
       /\ st' = d.r.s
       /\ SampleStep(d.mid, d.r, 1)
  /\ UNCHANGED acfg

\* a request at an empty aperture: _no_members answers it, neither _OnGet nor _AdjustAperture runs
DispatchEmpty ==
  /\ Size(st) = 0
  /\ st' = st
  /\ Note(NoMemberCheck(AbQ, 0, GA(st), GI(st)))
  /\ ab' = WithOpens(NoMemberUpd(AbQ, 0, GA(st), GI(st)), st)
  /\ UNCHANGED acfg

Put(e) ==
  /\ e \in st.act /\ st.ld[e] > 0
  /\ \E r \in PutSetP(st, e, All, Same) :
       /\ st' = r.s
       /\ SampleStep(st, r, -1)
  /\ UNCHANGED acfg

PutDrain ==
  /\ st.drain > 0
  /\ \E r \in PutDrainSetP(st, All, Same) :
       /\ st' = r.s
       /\ SampleStep(st, r, -1)
  /\ UNCHANGED acfg

Join(e) ==
  /\ Dynamic /\ st.env > 0 /\ e \notin st.S
  /\ LET s2 == JoinRes([st EXCEPT !.env = @ - 1], e)
     IN /\ st' = s2
        /\ Note(JoinCheck(AbQ, e, 0, GA(s2), GI(s2)))
        /\ ab' = WithOpens(JoinUpd(AbQ, e, 0, GA(s2), GI(s2)), s2)
  /\ UNCHANGED acfg

Leave(e) ==
  /\ Dynamic /\ st.env > 0 /\ e \in st.S
  /\ \E s2 \in LeaveSet([st EXCEPT !.env = @ - 1], e) :
       /\ st' = s2
       /\ Note(LeaveCheck(AbQ, e, 0, GA(s2), GI(s2)))
       /\ ab' = WithOpens(LeaveUpd(AbQ, e, 0, GA(s2), GI(s2)), s2)
  /\ UNCHANGED acfg

\* ---------------------------------------------------------------- environment
ChanFlip(e, c) ==
  /\ Dynamic /\ st.env > 0 /\ e \in st.act /\ st.ch[e] # c
  /\ ~\E o \in st.opens : o.ep = e /\ o.live
  /\ st' = [st EXCEPT !.ch[e] = c, !.env = @ - 1]
  /\ Note(EnvCheck(AbQ, 0, GA(st), GI(st)))
  /\ ab' = WithOpens(EnvUpd(AbQ, 0, GA(st), GI(st)), st)
  /\ UNCHANGED acfg

OpenDone(o, ok) ==
  /\ o \in st.opens
  /\ ok \/ (Dynamic /\ st.env > 0)
  /\ LET s2 == OpenDoneRes([st EXCEPT !.env = IF ok THEN @ ELSE @ - 1], o, ok)
     IN /\ st' = s2
        /\ Note(OpenDoneCheck(AbQ, o.id, IF ok THEN 1 ELSE 0, 0, GA(s2), GI(s2)))
        /\ ab' = WithOpens(OpenDoneUpd(AbQ, o.id, IF ok THEN 1 ELSE 0, 0, GA(s2), GI(s2)), s2)
  /\ UNCHANGED acfg

JitterFire ==
  /\ Jitter /\ st.jpc = "idle" /\ st.idle # {}
  /\ \E s2 \in JitterSet(st) :
       /\ st' = s2
       /\ PlainStep(s2)
  /\ UNCHANGED acfg

RunTask ==
  /\ st.runq # <<>>
  /\ \E s2 \in RunOneSet(st) :
       /\ st' = s2
       /\ PlainStep(s2)
  /\ UNCHANGED acfg

Next == \/ Dispatch \/ DispatchEmpty \/ PutDrain \/ RunTask \/ JitterFire
        \/ \E e \in Members : Put(e) \/ Join(e) \/ Leave(e)
        \/ \E e \in Members, c \in FlipStates : ChanFlip(e, c)
        \/ \E o \in st.opens, ok \in BOOLEAN : OpenDone(o, ok)

Spec == Init /\ [][Next]_vars

Bounded == ~st.overflow

\* ---------------------------------------------------------------- safety properties
NoViolation == viol = "ok"

\* C06.partition on the code-shaped state, in every state
Partition == st.act \cap st.idle = {} /\ st.act \cup st.idle = st.S

\* the quiescent-point clause of the oracle
QuietOk == st.runq = <<>> =>
             QuietCheck(ab, 0, Size(st), GI(st), 1, SetToSeq(st.act), SetToSeq(st.idle)) = "ok"

\* pending endpoints do not leak: pending implies an open in flight, a completion being processed,
\* or the jitter greenlet waiting
\* with min_size >= 1 the aperture is empty only when nobody is idle (a leaver is replaced at once)
NeverEmptyWithIdle == (MinSize >= 1 /\ Size(st) = 0) => st.idle = {}

NoPendingLeak == (st.pend # {}) => (st.opens # {} \/ st.runq # <<>>)

SumLd == LET RECURSIVE Sum(_)
             Sum(X) == IF X = {} THEN 0 ELSE LET x == CHOOSE y \in X : TRUE IN st.ld[x] + Sum(X \ {x})
         IN Sum(Members)

Structural ==
  /\ st.total = st.drain + SumLd
  /\ \A o \in st.opens : o.live => o.ep \in st.act
  /\ ab.opening = OpenIds(st)
  /\ ab.gA = Size(st) /\ ab.gI = GI(st) /\ ab.S = st.S /\ ab.tot = st.total

\* ---------------------------------------------------------------- steady traffic (liveness)
\* K requests outstanding, churned forever (one completion and one dispatch per tick, at the same
\* instant, in a fixed order); every open succeeds; no membership or channel event.
SteadyInit ==
  /\ \E act \in (SUBSET Members) \ {{}} : \E bad \in SUBSET act : \E v \in 0..(MaxOut * SC) :
       st = [InitState(Members, act, [e \in Members |-> IF e \in act THEN (IF e \in bad THEN "Closed" ELSE "Open") ELSE "Idle"])
               EXCEPT !.drain = SteadyK, !.total = SteadyK, !.avg = v, !.einit = TRUE]
  /\ AInit(Cfg, Members, 0, 0, 0)
  /\ viol = "ok"

PutAny(s) == IF s.drain > 0 THEN {[s EXCEPT !.drain = @ - 1]}
             ELSE {[s EXCEPT !.ld[e] = @ - 1] : e \in {f \in s.act : s.ld[f] > 0}}

GetThen(s, mode) ==
  UNION { {r.s : r \in AdjustSet([g.s EXCEPT !.ld[g.n] = @ + 1], 1, mode)} : g \in GetSet(s) }
PutThen(s, mode) ==
  UNION { {r.s : r \in AdjustSet(p, -1, mode)} : p \in PutAny(s) }

Churn ==
  /\ st.total = SteadyK
  /\ IF ChurnGetFirst
     THEN Size(st) > 0 /\ \E s1 \in GetThen(st, "strict") : st' \in PutThen(s1, "same")
     ELSE \E s1 \in PutThen(st, "strict") : Size(s1) > 0 /\ st' \in GetThen(s1, "same")
  /\ UNCHANGED <<ab, acfg, viol>>

OpenOk == /\ \E o \in st.opens : st' = OpenDoneRes(st, o, TRUE)
          /\ UNCHANGED <<ab, acfg, viol>>

RunQ == /\ st.runq # <<>>
        /\ st' \in RunOneSet(st)
        /\ UNCHANGED <<ab, acfg, viol>>

SteadyNext == Churn \/ OpenOk \/ RunQ
SteadySpec == SteadyInit /\ [][SteadyNext]_vars /\ WF_vars(Churn) /\ WF_vars(OpenOk) /\ WF_vars(RunQ)

InBandNow == Size(st) > 0 /\ st.avg > MnL * Size(st) /\ st.avg < MxL * Size(st)
PinnedNow == \/ Size(st) = 0
             \/ st.avg >= MxL * Size(st) /\ (st.idle = {} \/ Size(st) >= MxS)
             \/ st.avg <= MnL * Size(st) /\ Healthy(st) <= MnS
Settles == <>[](InBandNow \/ PinnedNow)
=============================================================================
