SPECIFICATION Spec
CONSTANTS
  MaxOpen = 1
  MaxClose = 1
  MaxReq = 1
  MaxConn = 2
  MaxFail = 0
  EagerRelease = FALSE
CONSTRAINT Bound
INVARIANT NoLostRequest
CHECK_DEADLOCK FALSE
