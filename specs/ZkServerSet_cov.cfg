SPECIFICATION Spec
CONSTANTS
  Names = {1, 2}
  NValues = 2
  MaxEnv = 5
  MaxInc = 2
  MaxRaise = 1
  MaxBlock = 0
CHECK_DEADLOCK FALSE
