SPECIFICATION Spec
CONSTANTS
  MaxLen = 8
  NTxn = 2
  Variants = {"varz", "raw"}
INVARIANT NoViolation
INVARIANT Determined
INVARIANT Emit
CHECK_DEADLOCK FALSE
