SPECIFICATION Spec
CONSTANTS
  Tags <- SomeTags
  KeyLen = 1
  ValLen = 1
  HiBytes <- HiQuick
  Variant = "asis"
INVARIANT ImplAgrees
CHECK_DEADLOCK FALSE
