--------------------------- MODULE ThriftWireWrite ---------------------------
(***************************************************************************)
(* C14 (a) -- code-shaped model of the write of a serial Thrift            *)
(* transaction: scales/thrift/sink.py                                      *)
(*     AsyncProcessRequest:      payload = stream.getvalue()               *)
(*                               sz = pack('!i', len(payload))             *)
(*                               spawn(_AsyncProcessTransaction, sz + payload, ...) *)
(*     _AsyncProcessTransaction: self._socket.write(data)                  *)
(*                               self._varz.messages_sent()                *)
(* over the two write implementations                                      *)
(*   "varz": scales/varz.py VarzSocketWrapper.write                        *)
(*           handle.sendall(buff) -- the socket library's own loop         *)
(*           (gevent socket.sendall: data_sent += self.send(data[data_sent:]) *)
(*            until everything was accepted)                               *)
(*   "raw":  scales/scales_socket.py ScalesSocket.write                    *)
(*           while sent < have: plus = handle.send(buff); sent += plus;    *)
(*           buff = buff[plus:]   (plus == 0 raises EOFError)              *)
(*                                                                         *)
(* One action per code segment between two send() calls (the places where  *)
(* the greenlet can block: a send() waits until the socket buffer has      *)
(* room).  The environment chooses, at every send(), how many of the       *)
(* offered bytes the socket accepts (1..offered): a single send() may take *)
(* only part of the buffer.  The peer receives exactly the accepted bytes, *)
(* in order (`rx`).                                                        *)
(*                                                                         *)
(* The property-level reference is embedded on a ghost variable: when the  *)
(* write returns (the call counts as sent, the transaction goes on to wait *)
(* for the reply) the peer must hold exactly one complete frame: 4-byte    *)
(* length + payload (C14.framePrefix).  `accepts` is the history of        *)
(* (offered, accepted) pairs: every terminal state is one complete         *)
(* acceptance sequence of one payload, printed by Emit and replayed on the *)
(* real code by the harness (direction A).                                 *)
(***************************************************************************)
EXTENDS TBinaryWire

CONSTANTS MaxPayload,   \* longest payload (the frame is 4 bytes longer)
          Variants      \* subset of {"varz", "raw"}

VARIABLES payload, variant,   \* chosen in Init, constant afterwards
          pc,                 \* "idle" | "write" | "sent"
          buff,               \* bytes not yet accepted (raw: `buff`; varz: data[data_sent:])
          sent, have,         \* loop counters (raw: sent, have; varz: data_sent, len(data))
          rx,                 \* what the peer has received on the connection
          accepts,            \* history: <<offered, accepted>> per send()
          viol                \* ghost: first failing clause

vars == <<payload, variant, pc, buff, sent, have, rx, accepts, viol>>

Body(k, base) == [i \in 1..k |-> base + i]          \* distinct byte values

Init ==
  /\ payload \in {Body(k, 16) : k \in 0..MaxPayload}
  /\ variant \in Variants
  /\ pc = "idle" /\ buff = <<>> /\ sent = 0 /\ have = 0
  /\ rx = <<>> /\ accepts = <<>> /\ viol = "ok"

\* ---------------------------------------------------------------- ghost oracle
\* Evaluated when write() returns: the bytes sent are a 4-byte length plus the payload.
WriteClause(r) == IF r = Frame(payload) THEN "ok" ELSE "C14.framePrefix"

\* ---------------------------------------------------------------- code segments
\* AsyncProcessRequest + _AsyncProcessTransaction up to the first send().
Begin ==
  /\ pc = "idle"
  /\ pc' = "write"
  /\ buff' = I32B(Len(payload)) \o payload          \* pack('!i', len(payload)) + payload
  /\ sent' = 0 /\ have' = Len(payload) + 4
  /\ UNCHANGED <<payload, variant, rx, accepts, viol>>

\* One send() that accepts k of the offered bytes, and the code up to the next send()
\* (or to the return of write()).
Step(k) ==
  /\ pc = "write" /\ sent < have
  /\ k \in 1..Len(buff)
  /\ LET nrx == rx \o SubSeq(buff, 1, k)
         nsent == sent + k
     IN /\ rx' = nrx
        /\ accepts' = Append(accepts, <<Len(buff), k>>)
        /\ sent' = nsent
        /\ buff' = SubSeq(buff, k + 1, Len(buff))   \* buff = buff[plus:] / data_memory[data_sent:]
        /\ IF nsent < have
             THEN UNCHANGED <<pc, viol>>            \* loop again
             ELSE /\ pc' = "sent"                   \* write() returns; messages_sent()
                  /\ viol' = IF viol = "ok" THEN WriteClause(nrx) ELSE viol
  /\ UNCHANGED <<payload, variant, have>>

\* "raw": ScalesSocket.write's own loop
WriteLoopSend(k) == variant = "raw" /\ Step(k)
\* "varz": the loop inside handle.sendall()
SendAllSend(k) == variant = "varz" /\ Step(k)

Next == Begin \/ (\E k \in 1..(MaxPayload + 4) : WriteLoopSend(k) \/ SendAllSend(k))

Spec == Init /\ [][Next]_vars

\* ---------------------------------------------------------------- invariants
NoViolation == viol = "ok"

Structural ==
  /\ 0 <= sent /\ sent <= have
  /\ pc = "write" => /\ Len(buff) = have - sent
                     /\ rx \o buff = Frame(payload)     \* nothing lost, repeated or reordered
  /\ pc = "sent" => sent = have /\ buff = <<>>
  /\ Len(rx) = sent

Terminal == pc = "sent"
\* the peer's view: the connection carries exactly one frame whose body is the payload
Delivered == Terminal =>
  LET fr == FrameAt(rx, 0) IN fr.kind = "frame" /\ fr.body = payload /\ fr.next = Len(rx)

\* used by the enumeration configs: one line per complete acceptance sequence
Emit == Terminal => PrintT(<<"W", variant, payload, accepts, rx>>)
=============================================================================
