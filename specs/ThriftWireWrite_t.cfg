SPECIFICATION Spec
CONSTANTS
  MaxPayload = 8
  Variants = {"varz", "raw"}
INVARIANT NoViolation
INVARIANT Structural
INVARIANT Delivered
CHECK_DEADLOCK FALSE
