SPECIFICATION Spec
CONSTANTS
  Kinds <- K_cgt
  Tuples <- T4
  Amts = {1, 2, 3}
  GVals = {1, 2, 3}
  SVals = {1, 2, 3, 4, 5}
  Cap = 2
  MaxOps = 9
  Sels = {"default", "tuple", "service", "endpoint", "method"}
  SourceEq = TRUE
  Interleave = TRUE
  MaxAge = 2
  MaxNow = 0
  Ticks = {1}
  Design = "tree"
CHECK_DEADLOCK FALSE
