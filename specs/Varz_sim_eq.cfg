SPECIFICATION Spec
CONSTANTS
  Kinds <- K_cgt
  Tuples <- T4
  Amts = {1, 2, 3}
  GVals = {1, 2, 3}
  SVals = {1, 2, 3, 4, 5}
  Cap = 2
  MaxOps = 9
  Sels = {"default", "tuple", "service", "endpoint", "method"}
  SourceEq = TRUE
  Interleave = TRUE
CHECK_DEADLOCK FALSE
