---------------------------- MODULE PoolAbsTrace ----------------------------
(* Batched validation of implementation traces against PoolAbs (C07).       *)
EXTENDS PoolAbs, Json, IOUtils

Traces == ndJsonDeserialize(IOEnv.TRACE_FILE)

VARIABLES tid, l, verdict
tvars == <<tid, l, verdict>>

Ev == Traces[tid].ev

TInit == /\ tid \in 1..Len(Traces)
         /\ l = 1
         /\ verdict = "ok"
         /\ AInit(Traces[tid].cfg.min, Traces[tid].cfg.max, Traces[tid].cfg.qlen)

TNext == /\ verdict = "ok"
         /\ l <= Len(Ev)
         /\ LET e == Ev[l]
                chk == ECheck(e)
            IN IF chk = "ok"
               THEN EUpd(e) /\ l' = l + 1 /\ verdict' = "ok"
               ELSE verdict' = chk /\ l' = l /\ UNCHANGED abs
         /\ UNCHANGED tid

TSpec == TInit /\ [][TNext]_<<abs, tvars>>

Done == verdict # "ok" \/ l > Len(Ev)
Report == Done => PrintT(<<"V", tid, l - 1, verdict>>)
=============================================================================
