------------------------------ MODULE MuxWire ------------------------------
(***************************************************************************)
(* C13 -- ThriftMux frames are byte-exact (reference-function form).        *)
(*                                                                         *)
(* The property quantifies over inputs, not schedules: TLC cannot          *)
(* enumerate the input space.  This module is the *reference*: over        *)
(* Seq(0..255) it defines                                                   *)
(*   - the mux encoder (Frame, Tdispatch with contexts, Tdiscarded, Tping),*)
(*     written from the mux protocol description:                          *)
(*        frame     = size:4 type:1 tag:3 body            (size = 4+|body|)*)
(*        Tdispatch = nctx:2 (klen:2 key vlen:2 val)*  dstlen:2 dst        *)
(*                    ndtab:2 (from~2 to~2)*  payload                      *)
(*        Tdiscarded= which:3 why*                                         *)
(*        Tping     = (empty)                                              *)
(*   - an independently written decoder (cursor based, total),             *)
(*   - the reply-header reader,                                            *)
(* and the property-level Check operators that judge one recorded          *)
(* (input, bytes) pair produced by the real code.  MuxWireCheck.tla        *)
(* model-checks Decode(Encode(m)) = m and the header inverse over a        *)
(* bounded domain; MuxWireTrace.tla validates recorded pairs in batches.   *)
(*                                                                         *)
(* Text is a sequence of Unicode code points; 64-bit deadline fields are   *)
(* four 16-bit limbs (TLC integers are 32-bit).                            *)
(***************************************************************************)
EXTENDS WireBytes, FiniteSets, TLC

\* ------------------------------------------------------------ message types
TdispatchT  == 2
RdispatchT  == -2
TpingT      == 65
RpingT      == -65
TdiscardedT == 66
RerrT       == -128
BadRerrT    == 127
ReplyTypes  == {RdispatchT, RpingT, RerrT, BadRerrT}    \* what a client can be sent (scales/thriftmux/protocol.py)
MaxTag      == 16777215                                  \* tags are 24 bit

\* ------------------------------------------------------------ reference encoder
Header(type, tag)      == I8(type) \o U24(tag)
Frame(type, tag, body) == I32(4 + Len(body)) \o Header(type, tag) \o body
LP(bytes)              == U16(Len(bytes)) \o bytes          \* 2-byte length, then exactly that many bytes

\* A context entry is [k: text, vt: "s"|"d", v: text, ts: limbs, to: limbs];
\* vt = "d" is a Deadline (two int64: timestamp ns, deadline ns), else a text value.
CtxValue(e)   == IF e.vt = "d" THEN L64(e.ts) \o L64(e.to) ELSE Utf8(e.v)
CtxEntry(e)   == LP(Utf8(e.k)) \o LP(CtxValue(e))
Contexts(ctx) == U16(Len(ctx)) \o Concat([i \in DOMAIN ctx |-> CtxEntry(ctx[i])])
DispatchBody(ctx, payload) == Contexts(ctx) \o U16(0) \o U16(0) \o payload   \* empty dst, empty dtab
TdispatchFrame(tag, ctx, payload)  == Frame(TdispatchT, tag, DispatchBody(ctx, payload))
TdiscardedFrame(tag, which, why)   == Frame(TdiscardedT, tag, U24(which) \o Utf8(why))
TpingFrame(tag)                    == Frame(TpingT, tag, <<>>)

\* ------------------------------------------------------------ independent decoder
DecFrame(f) ==
  IF Len(f) < 8
  THEN [ok |-> FALSE, size |-> -1, type |-> 0, tag |-> 0, body |-> <<>>]
  ELSE [ok |-> RdI32(f, 1) = Len(f) - 4, size |-> RdI32(f, 1), type |-> RdI8(f, 5),
        tag |-> RdU24(f, 6), body |-> SubSeq(f, 9, Len(f))]

\* The reply-header reader: first 4 bytes of a received body -> <<signed type, tag>>
ReadHeader(b) == <<RdI8(b, 1), RdU24(b, 2)>>

RdLP(s, p) ==      \* a 2-byte-length-prefixed field at position p
  IF ~Has(s, p, 2) THEN [ok |-> FALSE, val |-> <<>>, next |-> p]
  ELSE LET n == RdU16(s, p)
       IN IF ~Has(s, p + 2, n) THEN [ok |-> FALSE, val |-> <<>>, next |-> p]
          ELSE [ok |-> TRUE, val |-> Sub(s, p + 2, n), next |-> p + 2 + n]

DecPairs(s, p, n) ==   \* n (key, value) pairs of length-prefixed fields starting at p
  FoldLeft(LAMBDA acc, i :
             IF ~acc.ok THEN acc
             ELSE LET k == RdLP(s, acc.p)
                  IN IF ~k.ok THEN [acc EXCEPT !.ok = FALSE]
                     ELSE LET v == RdLP(s, k.next)
                          IN IF ~v.ok THEN [acc EXCEPT !.ok = FALSE]
                             ELSE [ok |-> TRUE, p |-> v.next,
                                   out |-> Append(acc.out, [k |-> k.val, v |-> v.val])],
           [ok |-> TRUE, p |-> p, out |-> <<>>], Iota(n))

DecFail(stage) == [ok |-> FALSE, stage |-> stage, ctx |-> <<>>, dst |-> <<>>, dtab |-> <<>>, payload |-> <<>>]

DecDispatch(body) ==
  IF ~Has(body, 1, 2) THEN DecFail("count")
  ELSE LET c == DecPairs(body, 3, RdU16(body, 1))
       IN IF ~c.ok THEN DecFail("ctx")
          ELSE LET dst == RdLP(body, c.p)
               IN IF ~dst.ok \/ ~Has(body, dst.next, 2) THEN DecFail("dst")
                  ELSE LET d == DecPairs(body, dst.next + 2, RdU16(body, dst.next))
                       IN IF ~d.ok THEN DecFail("dtab")
                          ELSE [ok |-> TRUE, stage |-> "done", ctx |-> c.out, dst |-> dst.val,
                                dtab |-> d.out, payload |-> SubSeq(body, d.p, Len(body))]

\* Does the decoded (key bytes, value bytes) pair carry exactly the supplied entry?
\* (independent direction: bytes -> code points / limbs)
EntryDecodesTo(d, e) ==
  /\ LET k == Utf8Decode(d.k) IN k.ok /\ k.text = e.k
  /\ IF e.vt = "d"
     THEN Len(d.v) = 16 /\ RdL64(d.v, 1) = e.ts /\ RdL64(d.v, 9) = e.to
     ELSE LET v == Utf8Decode(d.v) IN v.ok /\ v.text = e.v

\* ------------------------------------------------------------ property-level checks
\* One recorded pair = one event.  Each Check returns "ok" or the first failing clause.
\* `raised` is "none" or the class name of the exception the real code raised.

WellFormedCtx(ctx) ==
  /\ \A i \in DOMAIN ctx : /\ IsText(ctx[i].k) /\ IsText(ctx[i].v)
                           /\ ctx[i].vt \in {"s", "d"} /\ IsLimbs(ctx[i].ts) /\ IsLimbs(ctx[i].to)
  /\ \A i, j \in DOMAIN ctx : i # j => ctx[i].k # ctx[j].k       \* a dictionary: keys distinct

FrameCheck(f, type, tag) ==
  LET d == DecFrame(f) IN
  IF ~d.ok THEN "C13.frameLength"           \* 4-byte big-endian length followed by exactly that many bytes
  ELSE IF d.type # type THEN "C13.type"     \* signed type byte
  ELSE IF d.tag # tag THEN "C13.tag"        \* 24-bit tag
  ELSE "ok"

\* Tdispatch: e = [tag, ctx, payload, frame, raised]
DispCheck(e) ==
  IF ~(IsBytes(e.frame) /\ IsBytes(e.payload) /\ WellFormedCtx(e.ctx) /\ e.tag \in 0..MaxTag)
    THEN "harness.input"
  ELSE IF e.raised # "none" THEN "C13.raised"          \* an encodable input must produce a frame
  ELSE IF FrameCheck(e.frame, TdispatchT, e.tag) # "ok" THEN FrameCheck(e.frame, TdispatchT, e.tag)
  ELSE
  LET b   == DecDispatch(DecFrame(e.frame).body)
      n   == Len(e.ctx)
      exp == [j \in 1..n |-> [k |-> Utf8(e.ctx[j].k), v |-> CtxValue(e.ctx[j])]]
  IN
  \* each key and value preceded by its exact byte length: otherwise the entry boundaries
  \* are lost (fields overrun the body) ...
  IF ~b.ok /\ b.stage \in {"count", "ctx"} THEN "C13.contextLength"
  ELSE IF ~b.ok THEN "C13.dstDtab"
  ELSE IF Len(b.ctx) # n THEN "C13.contextCount"
  \* ... or the declared lengths differ from the UTF-8 byte lengths of what was supplied
  \* (contexts are a dictionary: the order on the wire is free)
  ELSE IF {<<Len(b.ctx[i].k), Len(b.ctx[i].v)>> : i \in 1..n} # {<<Len(exp[j].k), Len(exp[j].v)>> : j \in 1..n}
    THEN "C13.contextLength"
  ELSE IF {b.ctx[i] : i \in 1..n} # {exp[j] : j \in 1..n} THEN "C13.contextEntry"
  \* the independent decoder recovers the supplied code points / deadline
  ELSE IF ~(\A i \in 1..n : \E j \in 1..n : EntryDecodesTo(b.ctx[i], e.ctx[j])) THEN "C13.contextDecode"
  ELSE IF Len(b.dst) # 0 \/ Len(b.dtab) # 0 THEN "C13.dstDtab"      \* empty destination and delegation table
  ELSE IF b.payload # e.payload THEN "C13.payload"                  \* then the Thrift call, untouched
  ELSE
  \* bytes = Encode(input), the input contexts taken in wire order
  LET ord == [i \in 1..n |-> CHOOSE j \in 1..n : exp[j].k = b.ctx[i].k]
  IN IF e.frame # TdispatchFrame(e.tag, [i \in 1..n |-> e.ctx[ord[i]]], e.payload) THEN "C13.bytes"
     ELSE "ok"

\* Tdiscarded: e = [tag (of the frame; -1 = chosen by the transport, not an input), which (discarded tag),
\*                  why (text), whyKnown (FALSE = reason chosen by the transport), frame, raised]
DiscCheck(e) ==
  IF ~(IsBytes(e.frame) /\ IsText(e.why) /\ e.tag \in -1..MaxTag /\ e.which \in 0..MaxTag) THEN "harness.input"
  ELSE IF e.raised # "none" THEN "C13.raised"
  ELSE LET ftag == IF e.tag = -1 THEN DecFrame(e.frame).tag ELSE e.tag IN
  IF FrameCheck(e.frame, TdiscardedT, ftag) # "ok" THEN FrameCheck(e.frame, TdiscardedT, ftag)
  ELSE LET body == DecFrame(e.frame).body IN
    IF Len(body) < 3 \/ RdU24(body, 1) # e.which THEN "C13.discardTag"       \* carries the discarded tag
    ELSE IF ~e.whyKnown THEN "ok"
    ELSE LET w == Utf8Decode(SubSeq(body, 4, Len(body))) IN
      IF ~w.ok \/ w.text # e.why THEN "C13.discardReason"                   \* and the reason
      ELSE IF e.frame # TdiscardedFrame(ftag, e.which, e.why) THEN "C13.bytes"
      ELSE "ok"

\* Tping: e = [tag (-1 = chosen by the transport, not an input), frame, raised]
PingCheck(e) ==
  IF ~(IsBytes(e.frame) /\ e.tag \in -1..MaxTag) THEN "harness.input"
  ELSE IF e.raised # "none" THEN "C13.raised"
  ELSE LET ftag == IF e.tag = -1 THEN DecFrame(e.frame).tag ELSE e.tag IN
  IF FrameCheck(e.frame, TpingT, ftag) # "ok" THEN FrameCheck(e.frame, TpingT, ftag)
  ELSE IF e.frame # TpingFrame(ftag) THEN "C13.bytes"
  ELSE "ok"

\* Header writer / reply-header reader:
\*   e = [type, tag, len, bytes (the 8 header bytes written for a body of len bytes), raised,
\*        read (TRUE iff the reader was run on bytes 5..8), rtype, rtag, rraised]
HdrCheck(e) ==
  IF ~(IsBytes(e.bytes) /\ e.tag \in 0..MaxTag /\ e.type \in -128..127 /\ e.len >= 0) THEN "harness.input"
  ELSE IF e.raised # "none" THEN "C13.raised"
  ELSE IF e.bytes # I32(4 + e.len) \o Header(e.type, e.tag) THEN "C13.header"
  ELSE IF ~e.read THEN "ok"
  \* the reply-header reader inverts the header writer
  ELSE IF e.rraised # "none" THEN "C13.readHeader"
  ELSE IF <<e.rtype, e.rtag>> # ReadHeader(SubSeq(e.bytes, 5, 8)) THEN "C13.readHeader"
  ELSE IF <<e.rtype, e.rtag>> # <<e.type, e.tag>> THEN "C13.readHeader"
  ELSE "ok"

\* ------------------------------------------------------------ the (trivial) machine
\* The events are independent; the only state is how many records were accepted.
VARIABLE accepted
avars == <<accepted>>
AInit == accepted = 0
AUpd  == accepted' = accepted + 1

\* ------------------------------------------------------------ code-shaped writers/readers
\* (used by MuxWireCheck only: the code segments of scales/thriftmux as they are written,
\*  so that TLC produces the design-level counterexamples on the bounded domain)
\*  "asis"  = snapshot: _WriteContext packs len(str) characters with '%ds' (struct truncates the
\*            UTF-8 bytes to that many bytes); ReadHeader computes (256 - byte) * -1.
\*  "fixed" = with fixes/C13-*.diff applied.
ImplLP(text, variant) ==
  IF variant = "asis"
  THEN LET n == Len(text) b == Utf8(text)
       IN U16(n) \o (IF Len(b) >= n THEN SubSeq(b, 1, n) ELSE b \o [i \in 1..(n - Len(b)) |-> 0])
  ELSE LET b == Utf8(text) IN U16(Len(b)) \o b
ImplCtxEntry(e, variant) ==
  ImplLP(e.k, variant) \o (IF e.vt = "d" THEN U16(16) \o L64(e.ts) \o L64(e.to) ELSE ImplLP(e.v, variant))
ImplDispatchFrame(tag, ctx, payload, variant) ==
  LET body == U16(Len(ctx)) \o Concat([i \in DOMAIN ctx |-> ImplCtxEntry(ctx[i], variant)])
              \o U16(0) \o U16(0) \o payload
  IN I32(1 + 3 + Len(body)) \o I8(TdispatchT) \o U24(tag) \o body
\* SocketTransportSink._BuildHeader / _EncodeTag, MessageSerializer._Marshal_Tdiscarded + Tag.Encode
ImplEncodeTag(tag)  == <<(tag \div 65536) % 256, (tag \div 256) % 256, tag % 256>>     \* tag >> 16 & 0xff, ...
ImplBuildHeader(tag, type, datalen) == I32(1 + 3 + datalen) \o I8(type) \o ImplEncodeTag(tag)   \* pack('!ibBBB')
ImplDiscardFrame(tag, which, why) ==
  LET body == ImplEncodeTag(which) \o Utf8(why) IN ImplBuildHeader(tag, TdiscardedT, Len(body)) \o body
ImplReadHeader(b, variant) ==
  IF variant = "asis" THEN <<(256 - b[1]) * (-1), RdU24(b, 2)>>
  ELSE <<RdI8(b, 1), RdU24(b, 2)>>
=============================================================================
