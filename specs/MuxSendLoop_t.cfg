SPECIFICATION Spec
CONSTANTS
  Calls = {1, 2, 3}
  HasDl = {1}
  MaxPings = 1
  Rooms = {0, 5}
  Drains = {3, 16}
  Cap = 16
  Lowat = 1
  Variant = "asis"
INVARIANT TypeOK
INVARIANT WholeFramesInOrder
INVARIANT AbsAccepts
CHECK_DEADLOCK FALSE
