SPECIFICATION Spec
CONSTANTS
  Members = {1, 2, 3}
  Initial = {1, 2, 3}
  MinSize = 1
  MaxSize = 2
  MinL = 1
  MaxL = 4
  SC = 2
  MaxOut = 2
  MaxOpens = 3
  Jitter = TRUE
  Dynamic = FALSE
  EnvBudget = 0
  FlipStates = {}
  SteadyK = 0
  ChurnGetFirst = FALSE
CONSTRAINT Bounded
INVARIANT NoViolation
INVARIANT Partition
INVARIANT QuietOk
INVARIANT NoPendingLeak
INVARIANT NeverEmptyWithIdle
INVARIANT Structural
CHECK_DEADLOCK FALSE
