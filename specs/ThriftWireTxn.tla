---------------------------- MODULE ThriftWireTxn ----------------------------
(***************************************************************************)
(* C14 (a) -- code-shaped model of consecutive transactions of one         *)
(* SocketTransportSink (scales/thrift/sink.py _AsyncProcessTransaction)    *)
(* whose messages carry a deadline:                                        *)
(*     gtimeout = gevent.Timeout.start_new(deadline - now)                 *)
(*     self._socket.write(sz + payload)        -- partial sends, may block *)
(*     sz = readAll(4); buf = readAll(sz)      -- waits for the reply      *)
(*   except gevent.Timeout:                                                *)
(*     self._socket.close(); self._socket.open()   -- a fresh connection   *)
(*     post TimeoutError                                                   *)
(* The write is the loop of ThriftWireWrite ("varz": inside handle.sendall,*)
(* "raw": ScalesSocket.write); a send() accepts 1..offered bytes; when the *)
(* peer stops reading, the next send() blocks and the deadline expires     *)
(* inside the write (Stall): the length word and a prefix of the call are  *)
(* on the wire.  A timeout while waiting for the reply (NoReply) is        *)
(* handled by the same except clause.  The reads themselves are modelled   *)
(* in ReadAll; here a reply either arrives whole or never.                 *)
(*                                                                         *)
(* ReopenOnStall = TRUE is the code as it is.  FALSE is the variant that   *)
(* keeps the connection when the deadline expires before write() has       *)
(* returned ("nothing is outstanding"): kept as a counterexample           *)
(* generator -- TLC must find that the next transaction is written behind  *)
(* the unfinished frame (the oracle clause is not vacuous).                *)
(*                                                                         *)
(* The property-level oracle is ThriftWireAbs!WireCheck itself, evaluated  *)
(* at the end of every transaction on the streams of all connections       *)
(* opened so far (ghost variables conns / cuts), with the transactions'    *)
(* payloads as the calls that were made.  Every terminal state is one      *)
(* complete scenario, printed by Emit and replayed on the real transport   *)
(* by the harness (direction A).                                           *)
(***************************************************************************)
EXTENDS ThriftWireAbs

CONSTANTS MaxPayload,      \* longest payload
          NTxn,            \* transactions per scenario
          Variants,        \* subset of {"varz", "raw"}
          Partial,         \* sizes a send() may accept short of everything offered
          ReopenOnStall    \* TRUE: the code as it is

VARIABLES pays, variant,   \* chosen in Init, constant afterwards
          pc,              \* "idle" | "write" | "wait"
          buff, sent, have,
          txn,             \* transactions finished
          conns,           \* ghost: stream received by the peer, per connection; the last one is the current one
          cuts,            \* ghost: per connection, stream lengths at the ends of the transactions
          cur,             \* history: <<offered, accepted>> per send() of the current transaction
          script,          \* history: per finished transaction [acc |-> cur, end |-> "reply" | "noreply" | "stall"]
          viol             \* ghost: first failing clause

vars == <<pays, variant, pc, buff, sent, have, txn, conns, cuts, cur, script, viol, nseen>>

Body(k, base) == [i \in 1..k |-> base + i]

Init ==
  /\ pays \in [1..NTxn -> UNION {{Body(k, 16 * i) : k \in 0..MaxPayload} : i \in 1..NTxn}]
  /\ \A i \in 1..NTxn : pays[i] \in {Body(k, 16 * i) : k \in 0..MaxPayload}   \* distinct bytes per transaction
  /\ variant \in Variants
  /\ pc = "idle" /\ buff = <<>> /\ sent = 0 /\ have = 0 /\ txn = 0
  /\ conns = << <<>> >> /\ cuts = << <<>> >>                                  \* Open(): the first connection
  /\ cur = <<>> /\ script = <<>> /\ viol = "ok"
  /\ AInit

\* ---------------------------------------------------------------- ghost oracle
WireEvent(cs, ct, n) ==
  [calls |-> [i \in 1..n |-> [raw |-> pays[i]]],
   conns |-> [c \in DOMAIN cs |-> [stream |-> cs[c], cuts |-> ct[c], srv |-> <<>>]]]

\* the transaction ends (reply handed upstream / error posted): a quiescent point
Finish(end, reopen) ==
  LET cs == IF reopen THEN Append(conns, <<>>) ELSE conns           \* close(); open()
      ct0 == IF reopen THEN Append(cuts, <<>>) ELSE cuts
      ct == [c \in DOMAIN cs |-> Append(ct0[c], Len(cs[c]))]
  IN /\ conns' = cs /\ cuts' = ct
     /\ txn' = txn + 1
     /\ script' = Append(script, [acc |-> cur, end |-> end])
     /\ viol' = IF viol = "ok" THEN WireCheck(WireEvent(cs, ct, txn + 1)) ELSE viol
     /\ pc' = "idle" /\ buff' = <<>> /\ sent' = 0 /\ have' = 0 /\ cur' = <<>>

\* ---------------------------------------------------------------- code segments
\* AsyncProcessRequest + _AsyncProcessTransaction up to the first send()
Begin ==
  /\ pc = "idle" /\ txn < NTxn
  /\ pc' = "write"
  /\ buff' = I32B(Len(pays[txn + 1])) \o pays[txn + 1]
  /\ sent' = 0 /\ have' = Len(pays[txn + 1]) + 4
  /\ UNCHANGED <<pays, variant, txn, conns, cuts, cur, script, viol, nseen>>

\* one send() that accepts k of the offered bytes, and the code up to the next send() / the first read
Send(k) ==
  /\ pc = "write" /\ sent < have
  /\ k \in (Partial \cap 1..(Len(buff) - 1)) \cup {Len(buff)}
  /\ conns' = [conns EXCEPT ![Len(conns)] = @ \o SubSeq(buff, 1, k)]
  /\ cur' = Append(cur, <<Len(buff), k>>)
  /\ sent' = sent + k
  /\ buff' = SubSeq(buff, k + 1, Len(buff))
  /\ pc' = IF sent + k < have THEN "write" ELSE "wait"        \* write() returned: messages_sent(), readAll(4)
  /\ UNCHANGED <<pays, variant, have, txn, cuts, script, viol, nseen>>

\* the peer does not read: the next send() blocks and the deadline expires inside write()
\* (also: the deadline was already over when the transaction started -- nothing was written)
Stall ==
  /\ pc = "write" /\ sent < have
  /\ Finish("stall", ReopenOnStall)
  /\ UNCHANGED <<pays, variant, nseen>>

\* the reply arrives whole: handed upstream, the connection is kept
Reply ==
  /\ pc = "wait"
  /\ Finish("reply", FALSE)
  /\ UNCHANGED <<pays, variant, nseen>>

\* no reply before the deadline: except gevent.Timeout -> close(), open()
NoReply ==
  /\ pc = "wait"
  /\ Finish("noreply", TRUE)
  /\ UNCHANGED <<pays, variant, nseen>>

Next == Begin \/ (\E k \in 1..(MaxPayload + 4) : Send(k)) \/ Stall \/ Reply \/ NoReply

Spec == Init /\ [][Next]_vars

\* ---------------------------------------------------------------- invariants
NoViolation == viol = "ok"

Structural ==
  /\ Len(conns) = Len(cuts) /\ Len(conns) >= 1
  /\ Len(script) = txn /\ txn <= NTxn
  /\ pc = "write" => Len(buff) = have - sent /\ sent < have
  /\ pc = "idle" => buff = <<>> /\ cur = <<>>
  /\ nseen = 0

\* as the code is: every connection but the current one is dead (closed), and the current one holds whole
\* frames only whenever no transaction is running
CurrentWhole ==
  (ReopenOnStall /\ pc = "idle") =>
    LET s == conns[Len(conns)]
        walk == WalkConn([stream |-> s, srv |-> <<>>], [i \in 1..txn |-> [raw |-> pays[i]]], {})
    IN walk.v = "ok" /\ walk.p = Len(s)

Terminal == pc = "idle" /\ txn = NTxn
Emit == Terminal => PrintT(<<"X", variant, pays, script, conns>>)
=============================================================================
