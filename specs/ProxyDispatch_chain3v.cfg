SPECIFICATION Spec
CONSTANTS
  NCalls = 3
  Design = "chain"
  SharedClosure = FALSE
  Kinds = {"value"}
INVARIANT NoViolation
INVARIANT QuiescentOK
INVARIANT TypeOK
CHECK_DEADLOCK FALSE
