SPECIFICATION Spec
CONSTANTS
  Names = {1, 2}
  NValues = 2
  MaxEnv = 7
  MaxInc = 3
  MaxRaise = 1
  MaxBlock = 0
INVARIANT NoViolation
INVARIANT Structural
INVARIANT Bounded
VIEW View
CHECK_DEADLOCK FALSE
