---------------------------- MODULE UriProxyTrace ----------------------------
(* Batched validation of recorded (input, output) pairs of the real code   *)
(* against UriProxy (C20).  Same pattern as TimerAbsTrace.                 *)
EXTENDS UriProxy, Json, IOUtils

Traces == ndJsonDeserialize(IOEnv.TRACE_FILE)

VARIABLES tid, l, verdict
tvars == <<tid, l, verdict>>

Ev == Traces[tid].ev

TInit == /\ tid \in 1..Len(Traces)
         /\ l = 1
         /\ verdict = "ok"
         /\ AInit

CheckOf(e) ==
  CASE e.e = "Iface" -> IfaceCheck(e)
    [] e.e = "Fwd" -> FwdCheck(e)
    [] e.e = "Uri" -> UriCheck(e)
    [] e.e = "Client" -> ClientCheck(e)
    [] e.e = "Reopen" -> ReopenCheck(e)
    [] e.e = "Call" -> ECallCheck(e)
    [] e.e = "SinkRecv" -> ERecvCheck(e)
    [] e.e = "Reply" -> EReplyCheck(e)
    [] e.e = "Ret" -> ERetCheck(e)
    [] e.e = "Result" -> EResultCheck(e)
    [] e.e = "End" -> EEndCheck(e)
    [] OTHER -> "harness.unknownEvent"

UpdOf(e) ==
  CASE e.e = "Iface" -> IfaceUpd(e)
    [] e.e = "Client" -> ClientUpd(e)
    [] e.e = "Call" -> ECallUpd(e)
    [] e.e = "SinkRecv" -> ERecvUpd(e)
    [] e.e = "Reply" -> EReplyUpd(e)
    [] e.e = "Ret" -> ERetUpd(e)
    [] e.e = "Result" -> EResultUpd(e)
    [] e.e = "End" -> EEndUpd(e)
    [] OTHER -> NoUpd

TNext == /\ verdict = "ok"
         /\ l <= Len(Ev)
         /\ LET e == Ev[l]
                chk == CheckOf(e)
            IN IF chk = "ok"
               THEN UpdOf(e) /\ l' = l + 1 /\ verdict' = "ok"
               ELSE verdict' = chk /\ l' = l /\ UNCHANGED avars
         /\ UNCHANGED tid

TSpec == TInit /\ [][TNext]_<<avars, tvars>>

Done == verdict # "ok" \/ l > Len(Ev)
Report == Done => PrintT(<<"V", tid, l - 1, verdict>>)
=============================================================================
