----------------------------- MODULE WireBytes -----------------------------
(***************************************************************************)
(* Byte-sequence operators shared by the wire-format reference modules     *)
(* (MuxWire: C13, KafkaWire: C15).  A byte string is a sequence over       *)
(* 0..255.  TLC integers are 32-bit, therefore                             *)
(*   - 64-bit quantities (deadline nanoseconds, Kafka offsets) are four    *)
(*     16-bit limbs, most significant first;                               *)
(*   - a CRC32 value is a pair <<hi, lo>> of 16-bit limbs;                 *)
(*   - per-byte iteration uses FoldLeft (Java, iterative), never RECURSIVE.*)
(* Writers ("U16", "I32", ...) build big-endian fields; readers ("RdU16",  *)
(* ...) are written separately over (sequence, 1-based position) and       *)
(* are total only when the caller has checked the bounds ("Has").          *)
(***************************************************************************)
EXTENDS Integers, Sequences, SequencesExt, Bitwise

Byte == 0..255
IsBytes(s) == \A i \in DOMAIN s : s[i] \in Byte
Iota(n) == [i \in 1..n |-> i]

Concat(seqs) == FoldLeft(LAMBDA acc, x : acc \o x, <<>>, seqs)

\* ---------------------------------------------------------------- writers
U8(v)  == <<v>>
I8(v)  == <<IF v < 0 THEN v + 256 ELSE v>>
U16(v) == <<v \div 256, v % 256>>
I16(v) == U16(IF v < 0 THEN v + 65536 ELSE v)
U24(v) == <<v \div 65536, (v \div 256) % 256, v % 256>>
I32(v) ==
  IF v >= 0
  THEN <<v \div 16777216, (v \div 65536) % 256, (v \div 256) % 256, v % 256>>
  ELSE LET u == (v + 2147483647) + 1     \* v + 2^31 without overflowing, in 0..2^31-1
       IN <<128 + (u \div 16777216), (u \div 65536) % 256, (u \div 256) % 256, u % 256>>
\* a 64-bit two's complement quantity given as four 16-bit limbs (msb first)
L64(l) == U16(l[1]) \o U16(l[2]) \o U16(l[3]) \o U16(l[4])
IsLimbs(l) == Len(l) = 4 /\ \A i \in 1..4 : l[i] \in 0..65535

\* ---------------------------------------------------------------- readers
Has(s, p, n) == p >= 1 /\ n >= 0 /\ p + n - 1 <= Len(s)
Sub(s, p, n) == SubSeq(s, p, p + n - 1)
RdU8(s, p)  == s[p]
RdI8(s, p)  == IF s[p] >= 128 THEN s[p] - 256 ELSE s[p]
RdU16(s, p) == s[p] * 256 + s[p + 1]
RdI16(s, p) == LET u == RdU16(s, p) IN IF u >= 32768 THEN u - 65536 ELSE u
RdU24(s, p) == s[p] * 65536 + s[p + 1] * 256 + s[p + 2]
RdI32(s, p) == (IF s[p] >= 128 THEN s[p] - 256 ELSE s[p]) * 16777216
               + s[p + 1] * 65536 + s[p + 2] * 256 + s[p + 3]
RdL64(s, p) == <<RdU16(s, p), RdU16(s, p + 2), RdU16(s, p + 4), RdU16(s, p + 6)>>

\* ---------------------------------------------------------------- UTF-8
\* Text is a sequence of Unicode scalar values (code points, no surrogates).
IsScalar(c) == (c >= 0 /\ c <= 55295) \/ (c >= 57344 /\ c <= 1114111)
IsText(t) == \A i \in DOMAIN t : IsScalar(t[i])

Utf8Cp(c) ==
  IF c < 128 THEN <<c>>
  ELSE IF c < 2048 THEN <<192 + (c \div 64), 128 + (c % 64)>>
  ELSE IF c < 65536 THEN <<224 + (c \div 4096), 128 + ((c \div 64) % 64), 128 + (c % 64)>>
  ELSE <<240 + (c \div 262144), 128 + ((c \div 4096) % 64), 128 + ((c \div 64) % 64), 128 + (c % 64)>>

Utf8(t) == FoldLeft(LAMBDA acc, c : acc \o Utf8Cp(c), <<>>, t)

\* Independent decoder: a byte-at-a-time automaton (need = continuation bytes
\* still expected, cp = value accumulated, min = smallest value the current
\* form may legally encode).  Rejects stray/missing continuation bytes,
\* overlong forms, surrogates and values above U+10FFFF.
Utf8Step(st, b) ==
  IF ~st.ok THEN st
  ELSE IF st.need = 0 THEN
    IF b < 128 THEN [st EXCEPT !.out = Append(st.out, b)]
    ELSE IF b >= 194 /\ b <= 223 THEN [st EXCEPT !.need = 1, !.cp = b - 192, !.min = 128]
    ELSE IF b >= 224 /\ b <= 239 THEN [st EXCEPT !.need = 2, !.cp = b - 224, !.min = 2048]
    ELSE IF b >= 240 /\ b <= 244 THEN [st EXCEPT !.need = 3, !.cp = b - 240, !.min = 65536]
    ELSE [st EXCEPT !.ok = FALSE]
  ELSE IF b < 128 \/ b > 191 THEN [st EXCEPT !.ok = FALSE]
  ELSE LET cp == st.cp * 64 + (b - 128) IN
    IF st.need > 1 THEN [st EXCEPT !.need = st.need - 1, !.cp = cp]
    ELSE IF cp < st.min \/ ~IsScalar(cp) THEN [st EXCEPT !.ok = FALSE]
    ELSE [st EXCEPT !.need = 0, !.cp = 0, !.out = Append(st.out, cp)]

Utf8Decode(bytes) ==
  LET fin == FoldLeft(Utf8Step, [ok |-> TRUE, need |-> 0, cp |-> 0, min |-> 0, out |-> <<>>], bytes)
  IN [ok |-> fin.ok /\ fin.need = 0, text |-> fin.out]

\* ---------------------------------------------------------------- CRC-32
\* IEEE 802.3 (zlib) CRC, reflected polynomial 0xEDB88320 = <<60856, 33568>>,
\* on <<hi, lo>> 16-bit limbs.  The 256-entry table is a constant computed once.
CrcShift1(c) ==      \* one bit: c >> 1, xor the polynomial if the bit shifted out was 1
  LET hi == c[1] \div 2
      lo == (c[2] \div 2) + (c[1] % 2) * 32768
  IN IF c[2] % 2 = 1 THEN <<hi ^^ 60856, lo ^^ 33568>> ELSE <<hi, lo>>

CrcTable == [n \in 0..255 |->
  CrcShift1(CrcShift1(CrcShift1(CrcShift1(CrcShift1(CrcShift1(CrcShift1(CrcShift1(<<0, n>>))))))))]

CrcInit == <<65535, 65535>>
CrcByte(c, b) ==
  LET t == CrcTable[(c[2] ^^ b) % 256]
  IN <<t[1] ^^ (c[1] \div 256), t[2] ^^ ((c[2] \div 256) + (c[1] % 256) * 256)>>
CrcUpdate(c, bytes) == FoldLeft(CrcByte, c, bytes)
CrcFinal(c) == <<c[1] ^^ 65535, c[2] ^^ 65535>>
Crc32(bytes) == CrcFinal(CrcUpdate(CrcInit, bytes))
CrcBytes(c) == U16(c[1]) \o U16(c[2])

\* Known-answer tests (checked as ASSUMEs by the *Check modules)
CrcSelfTest ==
  /\ Crc32(<<>>) = <<0, 0>>
  /\ Crc32(<<49, 50, 51, 52, 53, 54, 55, 56, 57>>) = <<52212, 14630>>   \* "123456789" -> CBF43926
  /\ Crc32(<<0>>) = <<53762, 61325>>                                    \* D202EF8D
  /\ Crc32(<<255, 255, 255, 255>>) = <<65535, 65535>>                   \* FFFFFFFF
=============================================================================
