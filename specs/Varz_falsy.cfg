SPECIFICATION Spec
CONSTANTS
  Kinds <- K_cgt
  Tuples <- T2
  Amts = {0, 2}
  GVals = {0, 2}
  SVals = {0, 2}
  Cap = 2
  MaxOps = 3
  Sels = {"default", "tuple"}
  SourceEq = TRUE
  Interleave = FALSE
  MaxAge = 2
  MaxNow = 0
  Ticks = {1}
  Design = "falsy"
VIEW View
INVARIANT NoViolation
CHECK_DEADLOCK FALSE
