---------------------------- MODULE AsyncAbsTrace ----------------------------
(* Batched validation of implementation traces against AsyncAbs (C17).     *)
EXTENDS AsyncAbs, Json, IOUtils

Traces == ndJsonDeserialize(IOEnv.TRACE_FILE)

VARIABLES tid, l, verdict
tvars == <<tid, l, verdict>>

Ev == Traces[tid].ev

TInit == /\ tid \in 1..Len(Traces)
         /\ l = 1
         /\ verdict = "ok"
         /\ AInit(Traces[tid].cfg.comb, Traces[tid].cfg.n)

CheckOf(e) ==
  CASE e.e = "Set" -> SetCheck(e.i, e.k, e.v)
    [] e.e = "New" -> NewCheck
    [] e.e = "Run" -> RunCheck(e)
    [] e.e = "Obs" -> ObsCheck(e)
    [] e.e = "Esc" -> EscCheck(e)
    [] e.e = "Mut" -> MutCheck(e.k)
    [] e.e = "Reg" -> RegCheck(e)
    [] e.e = "RunC" -> RunCCheck(e)
    [] e.e = "ObsC" -> ObsCCheck(e)
    [] e.e = "Reset" -> ResetCheck(e.comb, e.n)
    [] OTHER -> "harness.unknownEvent"

UpdOf(e) ==
  CASE e.e = "Set" -> SetUpd(e.i, e.k, e.v)
    [] e.e = "New" -> NewUpd
    [] e.e = "Run" -> RunUpd(e)
    [] e.e = "Obs" -> ObsUpd(e)
    [] e.e = "Esc" -> EscUpd(e)
    [] e.e = "Mut" -> MutUpd(e.k)
    [] e.e = "Reg" -> RegUpd(e)
    [] e.e = "RunC" -> RunCUpd(e)
    [] e.e = "ObsC" -> ObsCUpd(e)
    [] e.e = "Reset" -> ResetUpd(e.comb, e.n)

TNext == /\ verdict = "ok"
         /\ l <= Len(Ev)
         /\ LET e == Ev[l]
                chk == CheckOf(e)
            IN IF chk = "ok"
               THEN UpdOf(e) /\ l' = l + 1 /\ verdict' = "ok"
               ELSE verdict' = chk /\ l' = l /\ UNCHANGED avars
         /\ UNCHANGED tid

TSpec == TInit /\ [][TNext]_<<avars, tvars>>

Done == verdict # "ok" \/ l > Len(Ev)
Report == Done => PrintT(<<"V", tid, l - 1, verdict>>)
=============================================================================
