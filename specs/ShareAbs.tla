------------------------------ MODULE ShareAbs ------------------------------
(***************************************************************************)
(* C16 -- connection sharing as seen at the underlying provider and sinks  *)
(* (property-level oracle for scales/pool/singleton.py SingletonPoolSink   *)
(* and scales/sink.py RefCountedSink / SharedSinkProvider).                *)
(*                                                                         *)
(* The observables are the calls that reach the layer BELOW the component  *)
(* (counting mocks) plus the API calls the holders make.  One quantum of   *)
(* the code can produce several observable events, so the machine is a     *)
(* pure function over a state record `a`: EvCheck(a, e) is "ok" or the     *)
(* name of the first failing clause (evaluated in the pre-state), and      *)
(* EvUpd(a, e) the unguarded update.  Events (records, field `e`):         *)
(*  kind "singleton" (one pool over a counting provider)                   *)
(*   Open{h} Close{h}   a holder calls pool.Open() / pool.Close()          *)
(*   Req{r}             a request is handed to the pool                    *)
(*   Create{c}          provider.CreateSink returned connection c (1,2,..) *)
(*   UOpen{c} UClose{c} Open() / Close() called on connection c            *)
(*   OpenDone{c, ok}    the environment completed c's pending open; ok =   *)
(*                      FALSE: the connection failed (state Closed)        *)
(*   Die{c}             the environment failed connection c (state Closed, *)
(*                      on_faulted fired)                                  *)
(*   Seen{c, r}         request r reached connection c                     *)
(*   Failed{r}          the pool answered r itself with an error           *)
(*   Resp{r, c, ok}     the environment answers request r, which was in     *)
(*                      flight on connection c (ok = FALSE: error, c is     *)
(*                      dead); the response travels up through the pool.    *)
(*                      No clause of its own: what the pool does with its   *)
(*                      connection afterwards is judged by single / shared  *)
(*                      / replace on the following events                   *)
(*   Q                  quiescent point                                    *)
(*  kind "refcounted" (RefCountedSink s wraps underlying sink s; optionally *)
(*  handed out by a SharedSinkProvider)                                    *)
(*   Open{s, h} Close{s, h}   a holder calls s.Open() / s.Close()          *)
(*   UOpen{c} UClose{c}       calls reaching the underlying sink (c = s)   *)
(*   Key{k, s, h}       provider.CreateSink with sharing key k gave holder *)
(*                      h the shared sink s                                *)
(*   Drop{s, h}         holder h died (dropped its reference to s)         *)
(*   Create / OpenDone / Die / Q as above (no clause attached)             *)
(*  Reset{kind}  (thorough tier only) the trace continues with a fresh,    *)
(*               independent component instance; the machine starts afresh *)
(*                                                                         *)
(* Clauses (one per phrase of the property; not stricter):                 *)
(*  C16.single    a connection is created only while the pool has no live  *)
(*                one (live = created, not failed, not closed)             *)
(*  C16.shared    every request that reaches a connection reaches the      *)
(*                pool's one connection (the most recently created)        *)
(*  C16.replace   a request handed over after the pool's connection had    *)
(*                failed is not sent to that failed connection: a fresh    *)
(*                one is created for it (checked when the request reaches  *)
(*                a connection, is failed, or is still waiting at Q)       *)
(*  C16.firstOpen the underlying sink is opened by the first Open of a     *)
(*                holding period (by the next quiescent point) and only    *)
(*                then: never while it is already open, never without a    *)
(*                holder                                                   *)
(*  C16.lastClose the underlying sink is closed only when opens minus      *)
(*                closes is back to zero, and is closed by then (at Q)     *)
(*  C16.surplus   a close beyond that does nothing: the underlying sink is *)
(*                not closed again and the count is not disturbed (a later *)
(*                Open opens it again: firstOpen)                          *)
(*  C16.sameKey   CreateSink with a key for which a shared sink is held by *)
(*                a live holder returns that same sink                     *)
(***************************************************************************)
EXTENDS Integers, Sequences, FiniteSets, TLC

Max(x, y) == IF x >= y THEN x ELSE y

\* conn: Seq([live, failed]); cur: latest created (0 none);
\* reqs: r -> [st, had, hadFailed]; cnt/ulive/opened/keyOf/alive: per shared sink
A0(kind) == [kind |-> kind, conn |-> <<>>, cur |-> 0, reqs |-> <<>>,
             cnt |-> <<>>, ulive |-> <<>>, opened |-> <<>>, keyOf |-> <<>>, alive |-> <<>>]

Known(a, s) == s \in DOMAIN a.cnt
\* make sink s known (idempotent)
WithSink(a, s) ==
  IF Known(a, s) THEN a
  ELSE [a EXCEPT !.cnt = @ @@ (s :> 0), !.ulive = @ @@ (s :> FALSE), !.opened = @ @@ (s :> FALSE),
                 !.keyOf = @ @@ (s :> -1), !.alive = @ @@ (s :> {})]

LiveConns(a) == {c \in DOMAIN a.conn : a.conn[c].live}
Kill(a, c, failed) ==
  IF c \in DOMAIN a.conn
  THEN [a EXCEPT !.conn[c] = [live |-> FALSE, failed |-> (@.failed \/ (failed /\ @.live))]]
  ELSE a

\* ---------------------------------------------------------------- singleton
SCheck(a, e) ==
  CASE e.e = "Create" ->
         IF e.c # Len(a.conn) + 1 THEN "harness.createOrder"
         ELSE IF LiveConns(a) # {} THEN "C16.single" ELSE "ok"
    [] e.e \in {"UOpen", "UClose", "Die", "OpenDone"} ->
         IF e.c \notin DOMAIN a.conn THEN "harness.unknownConn" ELSE "ok"
    [] e.e = "Req" -> IF e.r \in DOMAIN a.reqs THEN "harness.freshReq" ELSE "ok"
    [] e.e = "Seen" ->
         IF e.r \notin DOMAIN a.reqs \/ e.c \notin DOMAIN a.conn THEN "harness.unknownReq"
         ELSE IF a.reqs[e.r].st # "pending" THEN "harness.seenOnce"
         ELSE IF a.reqs[e.r].hadFailed /\ e.c = a.reqs[e.r].had THEN "C16.replace"
         ELSE IF e.c # a.cur THEN "C16.shared"
         ELSE "ok"
    [] e.e = "Failed" ->
         IF e.r \notin DOMAIN a.reqs THEN "harness.unknownReq"
         ELSE IF a.reqs[e.r].st = "pending" /\ a.reqs[e.r].hadFailed /\ a.cur = a.reqs[e.r].had
         THEN "C16.replace" ELSE "ok"
    [] e.e = "Q" ->
         IF \E r \in DOMAIN a.reqs : /\ a.reqs[r].st = "pending" /\ a.reqs[r].hadFailed
                                     /\ a.cur = a.reqs[r].had
         THEN "C16.replace" ELSE "ok"
    [] e.e \in {"Open", "Close"} -> "ok"
    [] e.e = "Resp" -> IF e.r \notin DOMAIN a.reqs THEN "harness.unknownReq"
                       ELSE IF a.reqs[e.r].st # "seen" THEN "harness.respBeforeSeen" ELSE "ok"
    [] OTHER -> "harness.unknownEvent"

SUpd(a, e) ==
  CASE e.e = "Create" -> [a EXCEPT !.conn = Append(@, [live |-> TRUE, failed |-> FALSE]), !.cur = e.c]
    [] e.e = "UClose" -> Kill(a, e.c, FALSE)
    [] e.e = "Die" -> Kill(a, e.c, TRUE)
    [] e.e = "OpenDone" -> IF e.ok THEN a ELSE Kill(a, e.c, TRUE)
    [] e.e = "Req" ->
         [a EXCEPT !.reqs = @ @@ (e.r :> [st |-> "pending", had |-> a.cur,
                                          hadFailed |-> (a.cur # 0 /\ a.conn[a.cur].failed)])]
    [] e.e = "Seen" -> [a EXCEPT !.reqs[e.r].st = "seen"]
    [] e.e = "Failed" -> [a EXCEPT !.reqs[e.r].st = "failed"]
    [] OTHER -> a

\* ---------------------------------------------------------------- refcounted / provider
RCheck(a, e) ==
  CASE e.e = "Open" -> "ok"
    [] e.e = "Close" -> "ok"
    [] e.e = "UOpen" ->
         IF ~Known(a, e.c) THEN "C16.firstOpen"
         ELSE IF a.cnt[e.c] < 1 \/ a.ulive[e.c] THEN "C16.firstOpen" ELSE "ok"
    [] e.e = "UClose" ->
         IF ~Known(a, e.c) THEN "C16.lastClose"
         ELSE IF a.cnt[e.c] > 0 THEN "C16.lastClose"
         ELSE IF ~a.ulive[e.c] THEN "C16.surplus" ELSE "ok"
    [] e.e = "Key" ->
         IF \E s \in DOMAIN a.keyOf : s # e.s /\ a.keyOf[s] = e.k /\ a.alive[s] # {}
         THEN "C16.sameKey" ELSE "ok"
    [] e.e = "Drop" -> "ok"
    [] e.e = "Q" ->
         IF \E s \in DOMAIN a.cnt : a.cnt[s] >= 1 /\ ~a.opened[s] THEN "C16.firstOpen"
         ELSE IF \E s \in DOMAIN a.cnt : a.cnt[s] = 0 /\ a.ulive[s] THEN "C16.lastClose"
         ELSE "ok"
    [] e.e \in {"Create", "OpenDone", "Die"} -> "ok"
    [] OTHER -> "harness.unknownEvent"

RUpd(a, e) ==
  CASE e.e = "Open" ->
         LET b == WithSink(a, e.s) IN
         [b EXCEPT !.cnt[e.s] = @ + 1, !.opened[e.s] = IF b.cnt[e.s] = 0 THEN FALSE ELSE @]
    [] e.e = "Close" ->
         LET b == WithSink(a, e.s) IN [b EXCEPT !.cnt[e.s] = Max(0, @ - 1)]
    [] e.e = "UOpen" ->
         LET b == WithSink(a, e.c) IN [b EXCEPT !.ulive[e.c] = TRUE, !.opened[e.c] = TRUE]
    [] e.e = "UClose" ->
         LET b == WithSink(a, e.c) IN [b EXCEPT !.ulive[e.c] = FALSE]
    [] e.e = "Key" ->
         LET b == WithSink(a, e.s) IN [b EXCEPT !.keyOf[e.s] = e.k, !.alive[e.s] = @ \cup {e.h}]
    [] e.e = "Drop" ->
         LET b == WithSink(a, e.s) IN [b EXCEPT !.alive[e.s] = @ \ {e.h}]
    [] OTHER -> a

\* Reset{kind}: the trace goes on with a new, independent component instance (thorough tier
\* packs several cases into one process); the machine starts afresh.
EvCheck(a, e) == IF e.e = "Reset" THEN (IF e.kind \in {"singleton", "refcounted"} THEN "ok" ELSE "harness.kind")
                 ELSE IF a.kind = "singleton" THEN SCheck(a, e)
                 ELSE IF a.kind = "refcounted" THEN RCheck(a, e)
                 ELSE "harness.kind"
EvUpd(a, e) == IF e.e = "Reset" THEN A0(e.kind)
               ELSE IF a.kind = "singleton" THEN SUpd(a, e) ELSE RUpd(a, e)

\* fold a sequence of events: [a, chk] with chk the first failing clause
RECURSIVE EvFold(_, _, _)
EvFold(a, chk, evs) ==
  IF evs = <<>> THEN [a |-> a, chk |-> chk]
  ELSE LET e == Head(evs)
           c == IF chk = "ok" THEN EvCheck(a, e) ELSE chk
       IN EvFold(EvUpd(a, e), c, Tail(evs))
=============================================================================
