------------------------------- MODULE LbBase -------------------------------
(***************************************************************************)
(* Code-shaped model of scales/loadbalancer/base.py LoadBalancerSink:      *)
(* the open sequence, the __init_done gate and the server-set callbacks    *)
(* (C05), with the subclass reduced to what _OnServersChanged does to the  *)
(* set of heap nodes (every node is idle here, so a removed node is closed *)
(* at once; the array algorithms are HeapBalancer's business).             *)
(*                                                                         *)
(* One action per code segment between two yields:                         *)
(*   CallOpen       Open(): creates the open result, spawns _OpenImpl      *)
(*   OpenStart(f)   _OpenImpl from its start (or after sleep(5)) up to the  *)
(*                  yield inside GetServers: Initialize registers the      *)
(*                  callbacks; GetServers either raises (f: the provider   *)
(*                  fails once -> log, sleep(5), retry) or parks           *)
(*   LoadFinish(early)  GetServers returns its snapshot (the provider's    *)
(*                  set when the call started, or now); shuffle;           *)
(*                  _servers = {}; __AddServer for each; __init_done.set() *)
(*                  (a parked callback is resumed LATER, by the Event's    *)
(*                  notifier); _OpenInitialChannels                        *)
(*   Notify(k, e)   the environment changes the server set; the provider   *)
(*                  queues the notification for its delivery worker        *)
(*                  (callbacks are delivered serially, as base.py assumes) *)
(*   WorkerRun      the worker delivers queued notifications one after the *)
(*                  other without yielding; a callback parks in            *)
(*                  __init_done.wait() while the gate is closed            *)
(* The open gate for requests (AsyncProcessRequest), enabled when Calls # {}: *)
(*   Park(c)        a call arrives while __open_ar is not ready: it is      *)
(*                  linked to __open_ar (rawlink)                           *)
(*   OpenComplete   _OnOpenComplete: __open_ar.set(True); the link          *)
(*                  callbacks run LATER (one deferred task)                 *)
(*   Timeout(c)     the ClientTimeoutSink above fires for a parked call:    *)
(*                  Observable.Set(True) stores the value at once (Get()    *)
(*                  sees it) but notifies subscribers from a SPAWNED        *)
(*                  greenlet (another deferred task, behind those queued    *)
(*                  earlier); the caller gets TimeoutError: the call is     *)
(*                  complete                                                *)
(*   RunDeferred    head of the FIFO of deferred tasks: the links of        *)
(*                  __open_ar (_on_open_done for every parked call: skip it  *)
(*                  if it timed out, else _AsyncProcessRequestImpl) or an   *)
(*                  Observable notification                                 *)
(* GateBySubscription = FALSE is base.py as it is (_on_open_done reads      *)
(* timeout_event.Get()); TRUE is the variant that learns about the timeout  *)
(* from a subscriber flag (kept as a counterexample generator: it dispatches *)
(* a completed call, whose load is never given back: C04.conserved).        *)
(* Join: ignored if the endpoint is in _servers, else __AddServer (factory  *)
(* recorded in _servers, _OnServersChanged(added) -> _AddSink appends a new *)
(* node unconditionally).  Leave: _servers.pop(ep, None), then             *)
(* _OnServersChanged(removed) -> _RemoveSink removes the first node with    *)
(* that endpoint, if any, and - as its LAST step - closes the node's        *)
(* channel.  That Close() may raise (BadClose = the node objects whose      *)
(* channel teardown fails): the exception travels up through               *)
(* __RemoveServer and the leave callback into the provider's notification   *)
(* worker, which logs it and carries on with the next notification.         *)
(* PopFirst = TRUE is base.py as it is (the _servers entry is popped BEFORE *)
(* the hook, so a raising Close() leaves nothing behind); FALSE is the      *)
(* variant that looks the factory up, runs the hook and deletes the entry   *)
(* afterwards (kept as a counterexample generator: when the hook raises the *)
(* entry stays, the re-join of that endpoint is dropped as a duplicate and  *)
(* a current member is not eligible: C05.membership).                       *)
(* JoinWaits = TRUE is base.py as it is (__OnServerSetJoin starts with      *)
(* __init_done.wait(), like the leave callback); FALSE is the variant whose *)
(* join callback does not wait (kept as a counterexample generator: a join  *)
(* delivered while GetServers is loading registers the member and creates a *)
(* node, _OpenImpl then resets _servers = {} and adds the listed member     *)
(* again: two nodes for one member, of which a leave removes only one).     *)
(***************************************************************************)
EXTENDS BalancerAbs

CONSTANTS Eps,        \* endpoint names
          MaxNotes,   \* number of notifications in a history
          None,
          Calls,      \* calls that may be parked behind the open ({} = gate for requests not modelled)
          GateBySubscription,
          JoinWaits,  \* __OnServerSetJoin waits for __init_done (base.py as it is)
          PopFirst,   \* __RemoveServer pops the _servers entry before the subclass hook (base.py as it is)
          BadClose    \* node objects (numbered in creation order) whose channel's Close() raises

VARIABLES T,         \* the provider's member set (the truth)
          opc,       \* _OpenImpl: "idle" | "spawned" | "inGet" | "sleep5" | "done"
          snapE,     \* provider's set when GetServers was entered
          inited,    \* Initialize has registered the callbacks
          failed,    \* the provider has failed once
          servers,   \* keys of _servers
          live,      \* endpoint -> sequence of node ids in the heap (array order)
          initDone,  \* __init_done flag
          q,         \* provider's delivery queue: <<k, e>>
          cur,       \* notification whose callback is parked at the gate
          wpc,       \* worker: "wait" | "ready" | "gate"
          nn,        \* nodes created so far
          notes,     \* notifications so far
          oar,       \* __open_ar: "unset" | "set" (links pending) | "done"
          cst,       \* call -> "new" | "parked" | "disp" | "skipped" | "deaddisp"
          evset,     \* call -> its timeout event's value (what Get() returns)
          flag,      \* call -> the subscriber's flag (GateBySubscription only)
          dq,        \* FIFO of deferred tasks: <<"links", None>> | <<"obs", c>>
          abs, viol
ivars == <<T, opc, snapE, inited, failed, servers, live, initDone, q, cur, wpc, nn, notes>>
gvars == <<oar, cst, evset, flag, dq>>
vars == <<ivars, gvars, abs, viol>>

EndEv == [e |-> "End", hasL |-> 0, L |-> <<>>, neg |-> 0]

Emit(evs) ==
  LET r == Run(abs, evs)
  IN /\ abs' = r.a
     /\ viol' = IF viol = "ok" THEN r.v ELSE viol

\* st = [servers, live, nn, evs]: the synchronous part of the callbacks
AddServer(st, e) ==          \* __AddServer
  IF e \in st.servers THEN st
  ELSE [servers |-> st.servers \cup {e},
        live |-> [st.live EXCEPT ![e] = Append(@, st.nn + 1)],
        nn |-> st.nn + 1,
        evs |-> Append(st.evs, [e |-> "Create", n |-> st.nn + 1, ep |-> e])]

OnJoin(st, e) ==             \* __OnServerSetJoin after the gate
  LET s1 == IF e \in st.servers THEN st ELSE AddServer(st, e)
  IN [s1 EXCEPT !.evs = Append(@, [e |-> "JoinDone", ep |-> e])]

OnLeave(st, e) ==            \* __OnServerSetLeave after the gate
  LET has == Len(st.live[e]) > 0
      \* _RemoveSink: the node leaves the heap, then its channel is closed; Close() raises
      raises == has /\ Head(st.live[e]) \in BadClose
      \* the entry is deleted before the hook (PopFirst) or after it - unless the hook raised
      s1 == IF ~PopFirst /\ raises THEN st ELSE [st EXCEPT !.servers = @ \ {e}]
      s2 == IF has
            THEN [s1 EXCEPT !.live[e] = Tail(@),
                            !.evs = Append(@, [e |-> "CloseSeen", n |-> Head(st.live[e])])]
            ELSE s1
  \* the callback returned or raised into the provider's worker (logged): the worker carries on
  IN [s2 EXCEPT !.evs = Append(@, [e |-> "LeaveDone", ep |-> e])]

Deliver(st, item) == IF item[1] = "J" THEN OnJoin(st, item[2]) ELSE OnLeave(st, item[2])

St0 == [servers |-> servers, live |-> live, nn |-> nn, evs |-> <<>>]

CallOpen ==
  /\ opc = "idle"
  /\ opc' = "spawned"
  /\ UNCHANGED <<T, snapE, inited, failed, servers, live, initDone, q, cur, wpc, nn, notes, abs, viol>>
  /\ UNCHANGED gvars

OpenStart(fail) ==
  /\ opc \in {"spawned", "sleep5"}
  /\ inited' = TRUE
  /\ IF fail
     THEN /\ ~failed
          /\ failed' = TRUE
          /\ opc' = "sleep5"
          /\ UNCHANGED snapE
     ELSE /\ opc' = "inGet"
          /\ snapE' = T
          /\ UNCHANGED failed
  /\ UNCHANGED <<T, servers, live, initDone, q, cur, wpc, nn, notes, abs, viol>>
  /\ UNCHANGED gvars

LoadFinish(early) ==
  /\ opc = "inGet"
  /\ LET snap == IF early THEN snapE ELSE T
         st == FoldLeft(AddServer, [St0 EXCEPT !.servers = {}], SetToSeq(snap))
     IN /\ servers' = st.servers
        /\ live' = st.live
        /\ nn' = st.nn
        /\ Emit(<<[e |-> "Snap"]>> \o st.evs \o <<EndEv>>)
  /\ initDone' = TRUE
  /\ wpc' = IF wpc = "gate" THEN "ready" ELSE wpc
  /\ opc' = "done"
  /\ UNCHANGED <<T, snapE, inited, failed, q, cur, notes>>
  /\ UNCHANGED gvars

Notify(k, e) ==
  /\ notes < MaxNotes
  /\ notes' = notes + 1
  /\ T' = IF k = "J" THEN T \cup {e} ELSE T \ {e}
  /\ Emit(<<[e |-> IF k = "J" THEN "Join" ELSE "Leave", ep |-> e]>>)
  /\ IF inited
     THEN /\ q' = Append(q, <<k, e>>)
          /\ wpc' = IF wpc = "wait" THEN "ready" ELSE wpc
     ELSE UNCHANGED <<q, wpc>>
  /\ UNCHANGED <<opc, snapE, inited, failed, servers, live, initDone, cur, nn>>
  /\ UNCHANGED gvars

WorkerRun ==
  /\ wpc = "ready"
  /\ LET items == (IF cur = None THEN <<>> ELSE <<cur>>) \o q
     IN IF ~initDone
        THEN IF ~JoinWaits /\ Head(items)[1] = "J"
             THEN \* the variant whose join callback does not wait: delivered at once
                  LET st == OnJoin(St0, Head(items)[2])
                  IN /\ servers' = st.servers
                     /\ live' = st.live
                     /\ nn' = st.nn
                     /\ Emit(st.evs \o <<EndEv>>)
                     /\ cur' = None
                     /\ q' = Tail(items)
                     /\ wpc' = IF Tail(items) = <<>> THEN "wait" ELSE "ready"
             ELSE \* the first callback parks in __init_done.wait()
                  /\ cur' = Head(items)
                  /\ q' = Tail(items)
                  /\ wpc' = "gate"
                  /\ UNCHANGED <<servers, live, nn, abs, viol>>
        ELSE LET st == FoldLeft(Deliver, St0, items)
             IN /\ servers' = st.servers
                /\ live' = st.live
                /\ nn' = st.nn
                /\ Emit(st.evs \o <<EndEv>>)
                /\ cur' = None
                /\ q' = <<>>
                /\ wpc' = "wait"
  /\ UNCHANGED <<T, opc, snapE, inited, failed, initDone, notes>>
  /\ UNCHANGED gvars

\* ------------------------------------------------------------------ the open gate for requests
Park(c) ==
  /\ cst[c] = "new" /\ opc # "idle" /\ oar = "unset"
  /\ cst' = [cst EXCEPT ![c] = "parked"]
  /\ UNCHANGED <<ivars, oar, evset, flag, dq, abs, viol>>

OpenComplete ==
  /\ Calls # {} /\ opc = "done" /\ oar = "unset"
  /\ oar' = "set"
  /\ dq' = Append(dq, <<"links", None>>)
  /\ UNCHANGED <<ivars, cst, evset, flag, abs, viol>>

Timeout(c) ==
  /\ cst[c] = "parked" /\ ~evset[c]
  /\ evset' = [evset EXCEPT ![c] = TRUE]
  /\ dq' = IF GateBySubscription THEN Append(dq, <<"obs", c>>) ELSE dq
  /\ UNCHANGED <<ivars, oar, cst, flag, abs, viol>>

RunDeferred ==
  /\ dq # <<>>
  /\ dq' = Tail(dq)
  /\ IF Head(dq)[1] = "links"
     THEN /\ oar' = "done"
          /\ cst' = [c \in Calls |->
                      IF cst[c] # "parked" THEN cst[c]
                      ELSE IF (IF GateBySubscription THEN flag[c] ELSE evset[c]) THEN "skipped"
                      ELSE IF evset[c] THEN "deaddisp" ELSE "disp"]
          /\ UNCHANGED flag
     ELSE /\ flag' = [flag EXCEPT ![Head(dq)[2]] = TRUE]
          /\ UNCHANGED <<oar, cst>>
  /\ UNCHANGED <<ivars, evset, abs, viol>>

Init ==
  /\ T \in SUBSET Eps
  /\ opc = "idle" /\ snapE = {} /\ inited = FALSE /\ failed = FALSE
  /\ servers = {} /\ live = [e \in Eps |-> <<>>] /\ initDone = FALSE
  /\ q = <<>> /\ cur = None /\ wpc = "wait" /\ nn = 0 /\ notes = 0
  /\ oar = "unset" /\ cst = [c \in Calls |-> "new"] /\ evset = [c \in Calls |-> FALSE]
  /\ flag = [c \in Calls |-> FALSE] /\ dq = <<>>
  /\ abs = AInit0("heap", T)
  /\ viol = "ok"

Next ==
  \/ CallOpen
  \/ \E f \in BOOLEAN : OpenStart(f)
  \/ \E early \in BOOLEAN : LoadFinish(early)
  \/ \E k \in {"J", "L"}, e \in Eps : Notify(k, e)
  \/ WorkerRun
  \/ \E c \in Calls : Park(c) \/ Timeout(c)
  \/ OpenComplete
  \/ RunDeferred

Spec == Init /\ [][Next]_vars

Perms == Permutations(Eps)      \* endpoint names are interchangeable (cfg: SYMMETRY Perms)

\* ------------------------------------------------------------------ properties
NoViolation == viol = "ok"

\* nothing can run at this instant (a pending sleep(5) or a parked GetServers is not runnable)
Quiescent == wpc # "ready" /\ opc # "spawned"
Elig == FoldLeft(LAMBDA acc, e : acc \o [i \in DOMAIN live[e] |-> e], <<>>, SetToSeq(Eps))
QuietOK == Quiescent => QCheck(abs, [e |-> "Q", hasE |-> 1, elig |-> Elig]) = "ok"

\* A call that completed (timed out) while parked is never dispatched: its sink stack is
\* already drained, so the load taken for it would never be given back (C04.conserved).
NoDeadDispatch == \A c \in Calls : cst[c] # "deaddisp"

\* never two nodes in the heap for one member
NoDuplicateNodes == \A e \in Eps : Len(live[e]) <= 1

Structural ==
  /\ abs.S = T
  /\ initDone = (opc = "done")
  /\ (wpc = "gate") => (cur # None /\ ~initDone)
  /\ ~initDone => (servers = {} /\ nn = 0)
  \* after loading, at quiescence, _servers and the heap agree and hold no duplicates
  /\ (Quiescent /\ initDone) => (\A e \in Eps : Len(live[e]) = IF e \in servers THEN 1 ELSE 0)
=============================================================================
