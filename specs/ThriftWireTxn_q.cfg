SPECIFICATION Spec
CONSTANTS
  MaxPayload = 1
  NTxn = 2
  Variants = {"varz", "raw"}
  Partial = {1, 3}
  ReopenOnStall = TRUE
INVARIANT NoViolation
INVARIANT Structural
INVARIANT CurrentWhole
CHECK_DEADLOCK FALSE
