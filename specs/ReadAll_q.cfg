SPECIFICATION Spec
CONSTANTS
  MaxLen = 8
  NTxn = 2
  Variants = {"varz", "raw"}
INVARIANT NoViolation
INVARIANT Structural
INVARIANT Determined
CHECK_DEADLOCK FALSE
