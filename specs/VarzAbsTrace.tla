---------------------------- MODULE VarzAbsTrace ----------------------------
(* Batched validation of implementation traces against VarzAbs (C18).       *)
(* cfg: kinds = sequence of metric kinds (metric id = position),            *)
(*      srcs  = sequence of source tuples [method, service, endpoint,       *)
(*              client] (0 = None); events name a source by its position,   *)
(*              the oracle identifies it by its tuple,                      *)
(*      scale = scale of totals and percentiles.                            *)
(* IncRun names its sources by a sequence of positions (srcs) with a        *)
(* sequence of amounts of the same length.                                  *)
EXTENDS VarzAbs, Json, IOUtils

Traces == ndJsonDeserialize(IOEnv.TRACE_FILE)

VARIABLES tid, l, verdict
tvars == <<tid, l, verdict>>

Ev == Traces[tid].ev
Cfg == Traces[tid].cfg
Src(i) == Cfg.srcs[i]
SrcOk(e) == e.src \in DOMAIN Cfg.srcs
RunSrcs(e) == [i \in DOMAIN e.srcs |-> Src(e.srcs[i])]

TInit == /\ tid \in 1..Len(Traces)
         /\ l = 1
         /\ verdict = "ok"
         /\ AInit(Cfg.kinds, Cfg.scale)

CheckOf(e) ==
  CASE e.e = "Inc" -> IF SrcOk(e) THEN IncCheck(e.metric, Src(e.src), e.amt) ELSE "harness.source"
    [] e.e = "Set" -> IF SrcOk(e) THEN SetCheck(e.metric, Src(e.src), e.v) ELSE "harness.source"
    [] e.e = "Sample" -> IF SrcOk(e) THEN SampleCheck(e.metric, Src(e.src), e.v, e.room, e.took) ELSE "harness.source"
    [] e.e = "IncRun" -> IF \A i \in DOMAIN e.srcs : e.srcs[i] \in DOMAIN Cfg.srcs
                         THEN IncRunCheck(e.metric, RunSrcs(e), e.amts) ELSE "harness.source"
    [] e.e = "Tick" -> TickCheck(e.dt)
    [] e.e = "PassBegin" -> PassBeginCheck
    [] e.e = "PassEnd" -> PassEndCheck
    [] e.e = "Agg" -> AggCheck(e.metric, e.sel, e.key, e.total, e.series, e.cnt, e.pcts, e.lo, e.hi)
    [] e.e = "AggDone" -> AggDoneCheck(e.metric, e.sel, e.nkeys)
    [] OTHER -> "harness.unknownEvent"

UpdOf(e) ==
  CASE e.e = "Inc" -> IncUpd(e.metric, Src(e.src), e.amt)
    [] e.e = "Set" -> SetUpd(e.metric, Src(e.src), e.v)
    [] e.e = "Sample" -> SampleUpd(e.metric, Src(e.src), e.v)
    [] e.e = "IncRun" -> IncRunUpd(e.metric, RunSrcs(e), e.amts)
    [] e.e = "Tick" -> AggUpd
    [] e.e = "PassBegin" -> PassBeginUpd
    [] e.e = "PassEnd" -> PassEndUpd
    [] e.e = "Agg" -> AggUpd
    [] e.e = "AggDone" -> AggUpd

TNext == /\ verdict = "ok"
         /\ l <= Len(Ev)
         /\ LET e == Ev[l]
                chk == CheckOf(e)
            IN IF chk = "ok"
               THEN UpdOf(e) /\ l' = l + 1 /\ verdict' = "ok"
               ELSE verdict' = chk /\ l' = l /\ UNCHANGED avars
         /\ UNCHANGED tid

TSpec == TInit /\ [][TNext]_<<avars, tvars>>

Done == verdict # "ok" \/ l > Len(Ev)
Report == Done => PrintT(<<"V", tid, l - 1, verdict>>)
=============================================================================
