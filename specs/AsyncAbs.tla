------------------------------ MODULE AsyncAbs ------------------------------
(***************************************************************************)
(* C17 -- the AsyncResult combinators as their callers see them            *)
(* (property-level oracle; scales/asynchronous.py).                        *)
(*                                                                         *)
(* One run exercises ONE combinator call.  Inputs are AsyncResults 1..an   *)
(* that the environment completes at most once each, some before the call, *)
(* the rest after it, in any order.  Observable events:                    *)
(*   Set(i, k, v)  input i completed: k = "ok" with value v, k = "fail"    *)
(*                 with exception id v, k = "nest" (Unwrap/Map chains      *)
(*                 only) with value = the AsyncResult number v.            *)
(*                 ContinueWith: input 1 is the source; inputs 2..an are   *)
(*                 further result objects the continuation may hand back   *)
(*                 (a follow-up operation); the environment completes      *)
(*                 them, or not, at any time before / after call and run.  *)
(*   New           the combinator is being called (inputs completed so far *)
(*                 are the "already complete at call time" subset); logged *)
(*                 immediately before the call, so whatever the call does  *)
(*                 synchronously (e.g. run the continuation of an already  *)
(*                 complete source) comes after it                         *)
(*   Esc(r)        an exception (id r.exn, -2 = not a scripted one) came   *)
(*                 out of a call INTO the code under test: r.at = "new":   *)
(*                 out of the combinator call itself, which therefore      *)
(*                 handed out no result (no Obs follows); r.at = "init" /  *)
(*                 "set" / "obs": out of constructing a result, set /      *)
(*                 set_exception of an input, reading the result (the      *)
(*                 driver then ends the run: nothing more can be judged).  *)
(*   Run(r)        ContinueWith: the continuation ran (r.ready = was the   *)
(*                 source ready, r.out/r.v = what it returned or raised;   *)
(*                 out = "ar": it returned the result OBJECT number v      *)
(*                 itself (v = 1: the source it was handed, v = 2: the     *)
(*                 follow-up result), whatever state that object is in)    *)
(*                 Map: the mapped function was applied (r.arg, r.out,     *)
(*                 r.v; out = "nest": it returned AsyncResult number v)    *)
(*   Obs(o)        at a quiescent point: o = [ready, ok, exn, vk, val] of  *)
(*                 the combined result: ready(), successful(), the id of   *)
(*                 .exception (-1 = None), and .value as kind + int seq    *)
(*                 (vk = "none" | "int" | "list" | "ar" | "other"; "ar":   *)
(*                 .value IS (identity) the AsyncResult number val[1] of   *)
(*                 this run -- a token distinct from whatever that result  *)
(*                 holds or will hold).                                    *)
(*   Mut(k)        WhenAll / WhenAny: after the call the caller mutated    *)
(*                 the very list object it had passed (k = "clear", "pop", *)
(*                 "append", "reverse", "replace", "insert0", "refill"...).*)
(*                 "The inputs" of the statement are the results passed AT *)
(*                 THE CALL: the event changes nothing in this machine, so *)
(*                 every later observation is still judged against them.   *)
(*   Reg / RunC / ObsC (acomb = "Reentrant")  re-entrant registration: any *)
(*                 number of ContinueWith / Map / Unwrap calls in one run, *)
(*                 numbered c = 1, 2, ... in the order they are made, each *)
(*                 on a source src (1..an, or 0 = the shared, already      *)
(*                 complete AsyncResult.Complete() whose value is None),   *)
(*                 made by the driver (by = 0) or from INSIDE the          *)
(*                 continuation / mapped function of registration `by`     *)
(*                 while it runs.  Reg(c, src, kind, by) is logged just    *)
(*                 before the call, RunC(c, ...) when the function of c    *)
(*                 runs, ObsC(c, ...) = observation of the result of c at  *)
(*                 a quiescent point.  Each registration is judged on its  *)
(*                 own by the same sentences as a single call: who         *)
(*                 registered it, and from where, is irrelevant.           *)
(*   Reset(comb,n) (thorough tier only) the trace continues with a new,    *)
(*                 independent combinator call; the machine starts afresh  *)
(* gevent's AsyncResult is re-settable (set then set_exception keeps the   *)
(* value, keeps successful() = True and ALSO sets .exception), hence the   *)
(* four-component observation instead of get().                           *)
(*                                                                         *)
(* Check operators return "ok" or the name of the failing clause and are   *)
(* evaluated in the state before the event.  Clauses (one per sentence of  *)
(* the property, not stricter):                                            *)
(*  C17.whenAll   success with the values in input order iff every input   *)
(*                succeeded; failed (ready, not successful, an exception)  *)
(*                at every quiescent point from the first input failure    *)
(*                on; not ready otherwise.  Which failure is reported is   *)
(*                not constrained.                                         *)
(*  C17.whenAny   if some input has succeeded: successful, no exception,   *)
(*                value of the first input to succeed (if inputs had       *)
(*                already succeeded at call time their relative order is   *)
(*                invisible to the combinator: any of them is accepted);   *)
(*                if every input has failed: failed with the last failure  *)
(*                (any of them when all had failed before the call);       *)
(*                otherwise not ready.                                     *)
(*  C17.unwrap    not ready until the chain from the outer result is       *)
(*                resolved; then the innermost plain value, or the         *)
(*                failure that ends the chain.                             *)
(*  C17.continueWith  continuation ran 0 times before / exactly once after *)
(*                completion of the source (success or failure); the       *)
(*                returned result holds what it returned / raised.  "What  *)
(*                it returned" is the returned object whatever its kind:   *)
(*                when the continuation returns a result object r          *)
(*                (pending, complete, failed, completed later or never)    *)
(*                the ContinueWith result is successful with value r       *)
(*                itself at the first quiescent point after the run and    *)
(*                stays so -- it neither waits for r, nor takes r's value, *)
(*                nor fails with r's failure (flattening is the business   *)
(*                of Unwrap / Map, see C17.unwrap / C17.map).              *)
(*  C17.map       function applied only when the source succeeded and to   *)
(*                its value; result = outcome of the function (unwrapped   *)
(*                when it returns a result); a failed source gives a       *)
(*                failed result without applying the function.             *)
(* Escapes (Esc): the statement says ContinueWith "captures its result or   *)
(* exception": once the continuation has run, what it returned or raised   *)
(* must be in the result ContinueWith hands out, so an exception coming    *)
(* out of the ContinueWith call itself after the continuation ran is       *)
(* C17.continueWith (any kind of exception; no result exists that could    *)
(* hold the outcome).  WhenAll / WhenAny / Unwrap: flagged only where the  *)
(* statement demands success at that very point (every input already       *)
(* succeeded / some input already succeeded / the chain already resolves   *)
(* to a plain value): a call that raises does not "succeed with" / "yield" *)
(* anything.  Where a failure or a pending result is due, and for Map      *)
(* (the statement only says which values its function is applied to), and  *)
(* for escapes from init / set / read, the statement is silent: the event  *)
(* is accepted unjudged ("ok") -- not a violation, not a crash.            *)
(* Domain: WhenAll / WhenAny with at least one input.                      *)
(***************************************************************************)
EXTENDS Integers, Sequences, FiniteSets, TLC

VARIABLES acomb,   \* "WhenAll" | "WhenAny" | "Unwrap" | "ContinueWith" | "Map"
          an,      \* number of inputs / chain levels
          adone,   \* completions in order: Seq([i, k, v])
          acall,   \* Len(adone) at the time of the call, -1 before the call
          aruns,   \* continuation runs / function applications: Seq([out, v])
          aesc,    \* TRUE: the combinator call raised, no result was handed out
          aregs    \* "Reentrant": registrations in order: Seq([src, kind, runs: Seq([out, v]), esc])

avars == <<acomb, an, adone, acall, aruns, aesc, aregs>>

Combs == {"WhenAll", "WhenAny", "Unwrap", "ContinueWith", "Map"}

AInit(comb, n) ==
  /\ acomb = comb
  /\ an = n
  /\ adone = <<>>
  /\ acall = -1
  /\ aruns = <<>>
  /\ aesc = FALSE
  /\ aregs = <<>>

Called == acall >= 0
DoneIdx == {adone[j].i : j \in DOMAIN adone}
Rec(i) == adone[CHOOSE j \in DOMAIN adone : adone[j].i = i]
PreJ == 1..acall
PostJ == (acall + 1)..Len(adone)
OkJ == {j \in DOMAIN adone : adone[j].k = "ok"}
FailJ == {j \in DOMAIN adone : adone[j].k = "fail"}

\* ---------------------------------------------------------------- events
SetCheck(i, k, v) ==
  IF i \notin 1..an THEN "harness.inputRange"
  ELSE IF i \in DoneIdx THEN "harness.setOnce"
  ELSE IF k \notin {"ok", "fail", "nest"} THEN "harness.kind"
  ELSE IF k = "nest" /\ (acomb \notin {"Unwrap", "Map"} \/ v <= i \/ v > an) THEN "harness.nest"
  ELSE "ok"

SetUpd(i, k, v) ==
  /\ adone' = Append(adone, [i |-> i, k |-> k, v |-> v])
  /\ UNCHANGED <<acomb, an, acall, aruns, aesc, aregs>>

NewCheck ==
  IF Called THEN "harness.newOnce"
  ELSE IF acomb \notin Combs THEN "harness.comb"
  ELSE IF an < 1 THEN "harness.domain"
  ELSE "ok"

NewUpd == acall' = Len(adone) /\ UNCHANGED <<acomb, an, adone, aruns, aesc, aregs>>

\* ContinueWith: r = [ready, out, v];  Map: r = [arg, out, v]
RunCheck(r) ==
  IF ~Called THEN "harness.runBeforeNew"
  ELSE IF acomb = "ContinueWith"
  THEN (IF r.out = "ar" /\ r.v \notin 1..an THEN "harness.runAr"
        ELSE IF Len(aruns) >= 1 \/ 1 \notin DoneIdx \/ ~r.ready THEN "C17.continueWith" ELSE "ok")
  ELSE IF acomb = "Map"
  THEN (IF 1 \notin DoneIdx THEN "C17.map"
        ELSE IF Rec(1).k # "ok" \/ r.arg # Rec(1).v THEN "C17.map" ELSE "ok")
  ELSE "harness.runEvent"

RunUpd(r) ==
  /\ aruns' = Append(aruns, [out |-> r.out, v |-> r.v])
  /\ UNCHANGED <<acomb, an, adone, acall, aesc, aregs>>

\* ---------------------------------------------------------------- observation
Pending(o) == ~o.ready
OkInt(o, vs) == /\ o.ready /\ o.ok /\ o.exn = -1
                /\ o.vk = "int" /\ Len(o.val) = 1 /\ o.val[1] \in vs
\* successful, and the value is the result object number a itself
OkAr(o, a) == /\ o.ready /\ o.ok /\ o.exn = -1
              /\ o.vk = "ar" /\ Len(o.val) = 1 /\ o.val[1] = a
Failed(o) == o.ready /\ ~o.ok /\ o.exn # -1
FailedWith(o, es) == Failed(o) /\ o.exn \in es

WhenAllOk(o) ==
  IF FailJ # {} THEN Failed(o)
  ELSE IF Len(adone) = an
  THEN /\ o.ready /\ o.ok /\ o.exn = -1 /\ o.vk = "list"
       /\ Len(o.val) = an
       /\ \A i \in 1..an : o.val[i] = Rec(i).v
  ELSE Pending(o)

WhenAnyOk(o) ==
  LET preS == OkJ \cap PreJ
      first == CHOOSE j \in OkJ : \A j2 \in OkJ : j <= j2
  IN IF OkJ # {}
     THEN OkInt(o, IF preS # {} THEN {adone[j].v : j \in preS} ELSE {adone[first].v})
     ELSE IF Len(adone) = an
     THEN FailedWith(o, IF PostJ # {} THEN {adone[Len(adone)].v}
                        ELSE {adone[j].v : j \in PreJ})
     ELSE Pending(o)

\* outcome of the chain starting at result number i (depth <= an)
RECURSIVE Resolve(_)
Resolve(i) ==
  IF i \notin DoneIdx THEN [st |-> "pending", v |-> 0]
  ELSE LET r == Rec(i) IN
       IF r.k = "nest" THEN Resolve(r.v) ELSE [st |-> r.k, v |-> r.v]

Matches(o, x) ==
  CASE x.st = "pending" -> Pending(o)
    [] x.st = "ok"      -> OkInt(o, {x.v})
    [] x.st = "fail"    -> FailedWith(o, {x.v})

UnwrapOk(o) == Matches(o, Resolve(1))

\* source = result 1.  The state of a returned result object (aruns[1].out = "ar") is
\* deliberately not consulted: the object itself is the captured value.
CwOk(o) ==
  IF 1 \notin DoneIdx THEN Len(aruns) = 0 /\ Pending(o)
  ELSE /\ Len(aruns) = 1
       /\ CASE aruns[1].out = "ret" -> OkInt(o, {aruns[1].v})
            [] aruns[1].out = "ar"  -> OkAr(o, aruns[1].v)
            [] OTHER                -> FailedWith(o, {aruns[1].v})

MapOk(o) ==
  IF 1 \notin DoneIdx THEN Len(aruns) = 0 /\ Pending(o)
  ELSE IF Rec(1).k = "fail" THEN Len(aruns) = 0 /\ Failed(o)
  ELSE /\ Len(aruns) >= 1
       /\ LET a == aruns[1] IN
          CASE a.out = "ret"   -> OkInt(o, {a.v})
            [] a.out = "raise" -> FailedWith(o, {a.v})
            [] a.out = "nest"  -> Matches(o, Resolve(a.v))

ObsCheck(o) ==
  IF ~Called THEN "harness.obsBeforeNew"
  ELSE IF aesc THEN "harness.obsNoResult"
  ELSE CASE acomb = "WhenAll"      -> IF WhenAllOk(o) THEN "ok" ELSE "C17.whenAll"
         [] acomb = "WhenAny"      -> IF WhenAnyOk(o) THEN "ok" ELSE "C17.whenAny"
         [] acomb = "Unwrap"       -> IF UnwrapOk(o) THEN "ok" ELSE "C17.unwrap"
         [] acomb = "ContinueWith" -> IF CwOk(o) THEN "ok" ELSE "C17.continueWith"
         [] acomb = "Map"          -> IF MapOk(o) THEN "ok" ELSE "C17.map"
         [] OTHER -> "harness.comb"

ObsUpd(o) == UNCHANGED avars

\* ---------------------------------------------------------------- escaped exceptions
\* r = [at, exn].  Evaluated, like every check, in the state before the event: for at = "new" that
\* is the state after New and after whatever ran inside the call.
EscCheck(r) ==
  IF r.at \notin {"init", "set", "new", "obs", "reg"} THEN "harness.escAt"
  ELSE IF r.at = "reg"                                \* the call of registration r.c raised
  THEN (IF r.c \notin DOMAIN aregs THEN "harness.escOutsideCall"
        ELSE IF aregs[r.c].esc THEN "harness.escOutsideCall"
        ELSE IF aregs[r.c].kind = "cw" /\ Len(aregs[r.c].runs) >= 1 THEN "C17.continueWith"
        ELSE "ok")
  ELSE IF r.at # "new" THEN "ok"                      \* statement silent: unjudged
  ELSE IF ~Called \/ aesc THEN "harness.escOutsideCall"
  ELSE CASE acomb = "ContinueWith" ->
              \* the continuation ran (inside this call or before): its result / exception had to be
              \* captured in the result this call hands out -- it hands out none
              IF Len(aruns) >= 1 THEN "C17.continueWith" ELSE "ok"
         [] acomb = "WhenAll" ->
              IF FailJ = {} /\ Len(adone) = an THEN "C17.whenAll" ELSE "ok"
         [] acomb = "WhenAny" ->
              IF OkJ # {} THEN "C17.whenAny" ELSE "ok"
         [] acomb = "Unwrap" ->
              IF Resolve(1).st = "ok" THEN "C17.unwrap" ELSE "ok"
         [] OTHER -> "ok"                             \* Map: statement silent: unjudged

EscUpd(r) ==
  /\ aesc' = (aesc \/ r.at = "new")
  /\ aregs' = IF r.at = "reg" THEN [aregs EXCEPT ![r.c].esc = TRUE] ELSE aregs
  /\ UNCHANGED <<acomb, an, adone, acall, aruns>>

\* ---------------------------------------------------------------- caller mutates its list
MutCheck(k) ==
  IF ~Called THEN "harness.mutBeforeNew"
  ELSE IF acomb \notin {"WhenAll", "WhenAny"} THEN "harness.mutComb"
  ELSE "ok"
MutUpd(k) == UNCHANGED avars      \* the inputs are those passed at the call

\* ---------------------------------------------------------------- re-entrant registration
\* Source 0 is AsyncResult.Complete(): complete from the start, value None (token -2 as function
\* argument, observed as vk = "none").
SrcDone(src) == src = 0 \/ src \in DoneIdx
SrcRec(src) == IF src = 0 THEN [i |-> 0, k |-> "ok", v |-> -2] ELSE Rec(src)

RegCheck(e) ==
  IF acomb # "Reentrant" THEN "harness.regComb"
  ELSE IF e.c # Len(aregs) + 1 THEN "harness.regOrder"
  ELSE IF e.src \notin 0..an THEN "harness.inputRange"
  ELSE IF e.kind \notin {"cw", "map", "unwrap"} THEN "harness.regKind"
  ELSE IF e.by \notin 0..Len(aregs) THEN "harness.regBy"
  ELSE "ok"
RegUpd(e) ==
  /\ aregs' = Append(aregs, [src |-> e.src, kind |-> e.kind, runs |-> <<>>, esc |-> FALSE])
  /\ UNCHANGED <<acomb, an, adone, acall, aruns, aesc>>

\* same sentences as RunCheck, per registration
RunCCheck(e) ==
  IF e.c \notin DOMAIN aregs THEN "harness.runUnregistered"
  ELSE LET g == aregs[e.c] IN
    CASE g.kind = "cw" ->
           IF Len(g.runs) >= 1 \/ ~SrcDone(g.src) \/ ~e.ready THEN "C17.continueWith" ELSE "ok"
      [] g.kind = "map" ->
           IF ~SrcDone(g.src) THEN "C17.map"
           ELSE IF SrcRec(g.src).k # "ok" \/ e.arg # SrcRec(g.src).v THEN "C17.map" ELSE "ok"
      [] OTHER -> "harness.runEvent"
RunCUpd(e) ==
  /\ aregs' = [aregs EXCEPT ![e.c].runs = Append(@, [out |-> e.out, v |-> e.v])]
  /\ UNCHANGED <<acomb, an, adone, acall, aruns, aesc>>

OkNone(o) == o.ready /\ o.ok /\ o.exn = -1 /\ o.vk = "none"

\* same sentences as CwOk / MapOk / UnwrapOk, per registration (functions here return a plain
\* value or raise; sources complete with a plain value or a failure)
ObsCOk(g, o) ==
  CASE g.kind = "cw" ->
         IF ~SrcDone(g.src) THEN Len(g.runs) = 0 /\ Pending(o)
         ELSE /\ Len(g.runs) = 1
              /\ IF g.runs[1].out = "ret" THEN OkInt(o, {g.runs[1].v}) ELSE FailedWith(o, {g.runs[1].v})
    [] g.kind = "map" ->
         IF ~SrcDone(g.src) THEN Len(g.runs) = 0 /\ Pending(o)
         ELSE IF SrcRec(g.src).k = "fail" THEN Len(g.runs) = 0 /\ Failed(o)
         ELSE /\ Len(g.runs) >= 1
              /\ IF g.runs[1].out = "ret" THEN OkInt(o, {g.runs[1].v}) ELSE FailedWith(o, {g.runs[1].v})
    [] g.kind = "unwrap" ->
         IF g.src = 0 THEN OkNone(o) ELSE Matches(o, Resolve(g.src))

ObsCCheck(e) ==
  IF e.c \notin DOMAIN aregs THEN "harness.obsUnregistered"
  ELSE IF aregs[e.c].esc THEN "harness.obsNoResult"
  ELSE IF ObsCOk(aregs[e.c], e) THEN "ok"
  ELSE CASE aregs[e.c].kind = "cw" -> "C17.continueWith"
         [] aregs[e.c].kind = "map" -> "C17.map"
         [] OTHER -> "C17.unwrap"
ObsCUpd(e) == UNCHANGED avars

\* Reset(comb, n): the trace goes on with a new, independent combinator call (thorough tier
\* packs several cases into one process); the machine starts afresh.
ResetCheck(comb, n) == IF comb \notin Combs \cup {"Reentrant"} THEN "harness.comb" ELSE "ok"
ResetUpd(comb, n) ==
  /\ acomb' = comb /\ an' = n /\ adone' = <<>> /\ acall' = -1 /\ aruns' = <<>> /\ aesc' = FALSE
  /\ aregs' = <<>>

SetEv(i, k, v) == SetCheck(i, k, v) = "ok" /\ SetUpd(i, k, v)
New == NewCheck = "ok" /\ NewUpd
Run(r) == RunCheck(r) = "ok" /\ RunUpd(r)
Obs(o) == ObsCheck(o) = "ok" /\ ObsUpd(o)
Esc(r) == EscCheck(r) = "ok" /\ EscUpd(r)
=============================================================================
