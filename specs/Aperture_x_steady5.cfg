SPECIFICATION SteadySpec
CONSTANTS
  Members = {1, 2, 3, 4, 5}
  Initial = {1, 2, 3, 4, 5}
  MinSize = 2
  MaxSize = 5
  MinL = 1
  MaxL = 4
  SC = 2
  MaxOut = 5
  MaxOpens = 4
  Jitter = FALSE
  Dynamic = FALSE
  EnvBudget = 0
  FlipStates = {}
  SteadyK = 4
  ChurnGetFirst = FALSE
CONSTRAINT Bounded
INVARIANT Partition
PROPERTY Settles
CHECK_DEADLOCK FALSE
