SPECIFICATION Spec
CONSTANTS
  Calls = {1, 2}
  HasDl = {1, 2}
  MaxPings = 0
  Rooms = {5, 60}
  Drains = {60}
  Cap = 60
  Lowat = 1
  Variant = "sharedDiscard"
INVARIANT WholeFramesInOrder
CHECK_DEADLOCK FALSE
