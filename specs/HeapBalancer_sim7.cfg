SPECIFICATION Spec
CONSTANTS
  MaxNodes = 9
  Eps = {1,2,3,4,5,6,7,8}
  InitN = 7
  MaxLoad = 3
  P = 100
  Repaired = TRUE
  Faults = TRUE
  Membership = TRUE
  TrackLate = FALSE
  Noise = TRUE
  Aperture = FALSE
  MinSize = 1
  StaleSize = FALSE
  Light = FALSE
INVARIANT NoViolation
INVARIANT HeapOrder
CHECK_DEADLOCK FALSE
