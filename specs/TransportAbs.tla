---------------------------- MODULE TransportAbs ----------------------------
(***************************************************************************)
(* C08 and C11 -- one transport sink (serial Thrift or ThriftMux) as seen   *)
(* from its upstream (sink stacks, state, fault signal) and from the peer   *)
(* (frames on the wire).  Property-level oracle.                           *)
(*                                                                         *)
(* Events (all carry the virtual time t, ms):                              *)
(*   Opened(ok)          Open() completed (ok = without exception)          *)
(*   Req(r)              request r handed to the transport                  *)
(*   Deliver(r, isErr)   a message reached r's sink stack terminal          *)
(*   FailSeen            the connection failed (first moment the transport  *)
(*                       can have observed it: fault injected and its       *)
(*                       socket closed / operation raised)                  *)
(*   OwnerClose          the owner called Close()                           *)
(*   Faulted             the on_faulted observable fired                    *)
(*   Quiet(st, inflight) quiescent point; st = reported state (1 Idle,      *)
(*                       2 Open, 3 Busy, 4 Closed)                          *)
(*   Probe(written)      at a quiescent point with st = Open and nothing    *)
(*                       in flight a probe request was issued: did its      *)
(*                       bytes reach the peer?                              *)
(*   FrameOut(type, tag) a frame decoded at the peer (Tdispatch = 2,        *)
(*                       Tdiscarded = 66 with tag = the discarded tag)      *)
(*   FrameIn(type, tag)  a frame the peer sent (Rdispatch -2, Rerr -128)    *)
(*   Reopen              a new connection was established (fresh tag space) *)
(*   End                 end of run                                        *)
(***************************************************************************)
EXTENDS Integers, Sequences, FiniteSets, TLC, IOUtils

PropSel == IF "PROP" \in DOMAIN IOEnv THEN IOEnv.PROP ELSE "all"
On(p) == PropSel = "all" \/ PropSel = p

PingDetect == 46000   \* ms: longest ping period + ping timeout + 1 s
MinTag == 2
MaxTag == 16777214      \* 2^24 - 2

VARIABLES tclock,
          reqs,        \* set of requests handed in
          delivered,   \* r -> number of deliveries
          failed,      \* has the connection failed (and not been re-opened since)?
          preFail,     \* requests in flight when the failure was observed
          errOnly,     \* those of them whose reply had not been sent by the peer: must get an error
          ownerClosed, \* Close() was called by the owner
          signalled,   \* fault signal seen since the failure
          everFaulted, \* the transport has raised its fault signal at some point (it never recovers from that)
          silentSince, \* -1, or the time from which the multiplexed peer stopped answering anything
          beforeSilence, \* requests that had been handed in when the silence began
          unanswered,  \* tags written and not yet answered on this connection
          recent,      \* tags answered by the peer since the last quiescent point (the client may not
                       \* have processed the answer yet, so they still count as in use for the bound)
          stray,       \* tags named by peer frames while no request carried them, since the last
                       \* quiescent point: the client may match such a frame with a request it tags
                       \* before it gets to process the frame (not observable from outside)
          qtags,       \* tags the client has given to requests that it has not written yet (Tagged event;
                       \* empty when the tag is not observable at hand-in)
          held,        \* tags written and not named by a peer frame read after the write (pessimistic
                       \* view used for the bound; `unanswered` is the optimistic one used for uniqueness)
          peak,        \* peak number of tags in use on this connection
          aged,        \* tags notionally reserved by a history the harness did not execute (Age event)
          maxTag,      \* highest tag written on this connection
          written,     \* number of request frames written (all connections)
          nreq         \* number of requests handed in
tvars_ == <<tclock, reqs, delivered, failed, preFail, errOnly, ownerClosed, signalled, everFaulted, silentSince, beforeSilence, unanswered, recent, stray, qtags, held, peak, aged, maxTag, written, nreq>>

TInit0(t0) ==
  /\ tclock = t0 /\ reqs = {} /\ delivered = <<>> /\ failed = FALSE /\ preFail = {} /\ errOnly = {}
  /\ ownerClosed = FALSE /\ signalled = FALSE /\ everFaulted = FALSE /\ silentSince = -1 /\ beforeSilence = {} /\ unanswered = {} /\ recent = {} /\ stray = {} /\ qtags = {} /\ held = {} /\ peak = 0 /\ aged = 0 /\ maxTag = 0
  /\ written = 0 /\ nreq = 0

Mono(t) == IF t >= tclock THEN "ok" ELSE "harness.clockMonotone"
Cnt(r) == IF r \in DOMAIN delivered THEN delivered[r] ELSE 0
InFlight == {r \in reqs : Cnt(r) = 0}

OpenedCheck(ok, t) == Mono(t)
OpenedUpd(ok, t) ==
  /\ tclock' = t
  /\ failed' = IF ok THEN FALSE ELSE TRUE
  /\ preFail' = IF ok THEN {} ELSE (IF failed THEN preFail ELSE InFlight)
  /\ errOnly' = IF ok THEN {} ELSE (IF failed THEN errOnly ELSE InFlight)
  /\ signalled' = IF ok THEN FALSE ELSE signalled
  /\ ownerClosed' = ownerClosed      \* the driver never re-opens a transport its owner closed
  /\ UNCHANGED <<everFaulted, silentSince, beforeSilence>>
  /\ UNCHANGED <<reqs, delivered, unanswered, recent, stray, qtags, held, peak, aged, maxTag, written, nreq>>

ReqCheck(r, t) == IF Mono(t) # "ok" THEN Mono(t) ELSE IF r \in reqs THEN "harness.freshReq" ELSE "ok"
ReqUpd(r, t) == /\ tclock' = t /\ reqs' = reqs \cup {r} /\ nreq' = nreq + 1
                \* a tag is taken when the request is handed in, possibly long before it is written (blocked
                \* writes): everything held plus everything handed in and not yet written may be in use now
                /\ peak' = LET n == Cardinality(held \cup recent) + (nreq + 1 - written) IN IF n > peak THEN n ELSE peak
                /\ UNCHANGED <<delivered, failed, preFail, errOnly, ownerClosed, signalled, everFaulted, silentSince, beforeSilence, unanswered, recent, stray, qtags, held, aged, maxTag, written>>

\* exactly once: never a second message on a request's stack; after a connection failure the
\* one message an in-flight request gets must be an error
DeliverCheck(r, isErr, t) ==
  IF Mono(t) # "ok" THEN Mono(t)
  ELSE IF r \notin reqs THEN "harness.knownReq"
  ELSE IF On("C08") /\ Cnt(r) >= 1 THEN "C08.failOnce"
  ELSE IF On("C08") /\ failed /\ ~ownerClosed /\ r \in errOnly /\ ~isErr THEN "C08.failOnce"
  ELSE "ok"
DeliverUpd(r, isErr, t) ==
  /\ tclock' = t
  /\ delivered' = IF r \in DOMAIN delivered THEN [delivered EXCEPT ![r] = @ + 1] ELSE delivered @@ (r :> 1)
  /\ UNCHANGED <<reqs, failed, preFail, errOnly, ownerClosed, signalled, everFaulted, silentSince, beforeSilence, unanswered, recent, stray, qtags, held, peak, aged, maxTag, written, nreq>>

\* must = requests handed in and not yet delivered; errs = those whose reply the peer had not sent
FailSeenCheck(must, errs, t) == Mono(t)
FailSeenUpd(must, errs, t) ==
  /\ tclock' = t
  /\ failed' = TRUE
  /\ preFail' = IF failed THEN preFail ELSE {must[i] : i \in DOMAIN must} \cap InFlight
  /\ errOnly' = IF failed THEN errOnly ELSE {errs[i] : i \in DOMAIN errs} \cap InFlight
  /\ UNCHANGED <<reqs, delivered, ownerClosed, signalled, everFaulted, silentSince, beforeSilence, unanswered, recent, stray, qtags, held, peak, aged, maxTag, written, nreq>>

OwnerCloseCheck(t) == Mono(t)
OwnerCloseUpd(t) == /\ tclock' = t /\ ownerClosed' = TRUE
                    /\ UNCHANGED <<reqs, delivered, failed, preFail, errOnly, signalled, everFaulted, silentSince, beforeSilence, unanswered, recent, stray, qtags, held, peak, aged, maxTag, written, nreq>>

FaultedCheck(t) == Mono(t)
FaultedUpd(t) == /\ tclock' = t /\ signalled' = TRUE /\ everFaulted' = TRUE /\ UNCHANGED <<silentSince, beforeSilence>>
                 /\ UNCHANGED <<reqs, delivered, failed, preFail, errOnly, ownerClosed, unanswered, recent, stray, qtags, held, peak, aged, maxTag, written, nreq>>

\* At a quiescent point after a failure (not an owner-initiated Close): every request that was in
\* flight has had its one message, the transport reports Closed, and the fault signal has fired.
QuietCheck(st, t) ==
  IF Mono(t) # "ok" THEN Mono(t)
  ELSE IF On("C08") /\ failed /\ ~ownerClosed /\ \E r \in preFail : Cnt(r) = 0 THEN "C08.failOnce"
  ELSE IF On("C08") /\ failed /\ ~ownerClosed /\ st # 4 THEN "C08.closed"
  ELSE IF On("C08") /\ failed /\ ~ownerClosed /\ ~signalled THEN "C08.signal"
  \* a transport that has raised its fault signal is dead: it must not report itself open again
  ELSE IF On("C08") /\ everFaulted /\ ~ownerClosed /\ st # 4 THEN "C08.closed"
  \* a multiplexed peer that has been silent for longer than the longest ping period (40 s) plus the
  \* ping timeout (5 s): everything handed in before the silence began has been failed, the transport
  \* reports Closed and has signalled
  ELSE IF On("C08") /\ silentSince >= 0 /\ ~ownerClosed /\ t >= silentSince + PingDetect
          /\ \E r \in reqs : Cnt(r) = 0 /\ r \in beforeSilence THEN "C08.failOnce"
  ELSE IF On("C08") /\ silentSince >= 0 /\ ~ownerClosed /\ t >= silentSince + PingDetect /\ st # 4 THEN "C08.closed"
  ELSE IF On("C08") /\ silentSince >= 0 /\ ~ownerClosed /\ t >= silentSince + PingDetect /\ ~everFaulted THEN "C08.signal"
  ELSE "ok"
\* every frame read so far has been processed by now: the excuse of a stray frame ends here, also for requests
\* that are still waiting in the send queue (a client can tell that such a request has not been answered)
QuietUpd(st, t) == /\ tclock' = t /\ recent' = {} /\ stray' = {}
                   /\ UNCHANGED <<reqs, delivered, failed, preFail, errOnly, ownerClosed, signalled, everFaulted, silentSince, beforeSilence, unanswered, qtags, held, peak, aged, maxTag, written, nreq>>

\* The driver issues a probe only when the transport reports Open with nothing in flight.
ProbeCheck(wrote, t) ==
  IF Mono(t) # "ok" THEN Mono(t)
  ELSE IF On("C08") /\ ~wrote THEN "C08.openMeansUsable"
  ELSE "ok"
ProbeUpd(wrote, t) == QuietUpd(0, t)

\* The client matches frames to requests by tag alone, whatever the message type: any frame the
\* client has read that names a tag answers that tag.
IsAnswer(type) == TRUE

\* the multiplexed peer stops answering (pings included) / resumes
SilenceCheck(on, t) == Mono(t)
SilenceUpd(on, t) ==
  /\ tclock' = t
  /\ silentSince' = IF on THEN (IF silentSince >= 0 THEN silentSince ELSE t) ELSE -1
  /\ beforeSilence' = IF on THEN (IF silentSince >= 0 THEN beforeSilence ELSE reqs) ELSE {}
  /\ UNCHANGED <<reqs, delivered, failed, preFail, errOnly, ownerClosed, signalled, everFaulted, unanswered, recent, stray, qtags, held, peak, aged, maxTag, written, nreq>>

FrameOutCheck(type, tag, t) ==
  IF Mono(t) # "ok" THEN Mono(t)
  ELSE IF type # 2 THEN "ok"
  ELSE IF On("C11") /\ (tag < MinTag \/ tag > MaxTag) THEN "C11.range"
  ELSE IF On("C11") /\ tag \in unanswered THEN "C11.unique"
  ELSE "ok"
FrameOutUpd(type, tag, t) ==
  /\ tclock' = t
  /\ IF type = 2
     THEN /\ unanswered' = IF tag \in stray THEN unanswered ELSE unanswered \cup {tag}
          /\ stray' = stray \ {tag}
          /\ qtags' = qtags \ {tag}
          /\ held' = held \cup {tag}
          /\ peak' = LET n == Cardinality(held \cup recent \cup {tag}) IN IF n > peak THEN n ELSE peak
          /\ maxTag' = IF tag > maxTag THEN tag ELSE maxTag
          /\ written' = written + 1 /\ UNCHANGED aged
     ELSE UNCHANGED <<unanswered, stray, qtags, held, peak, aged, maxTag, written>>
  /\ UNCHANGED <<reqs, delivered, failed, preFail, errOnly, ownerClosed, signalled, everFaulted, silentSince, beforeSilence, recent, nreq>>

FrameInCheck(type, tag, t) == Mono(t)
FrameInUpd(type, tag, t) ==
  /\ tclock' = t
  /\ unanswered' = IF IsAnswer(type) THEN unanswered \ {tag} ELSE unanswered
  /\ recent' = IF tag \in held THEN recent \cup {tag} ELSE recent
  /\ held' = held \ {tag}
  \* a frame naming a tag no written request carries: if a request with that tag is written before the next
  \* quiescent point the client may have processed the frame after that write (indistinguishable from the
  \* answer); once a quiescent point has passed, every frame read before it has been processed - a request
  \* that was still queued then (its tag is in qtags) cannot have been answered by it
  /\ stray' = IF tag \notin unanswered THEN stray \cup {tag} ELSE stray
  /\ UNCHANGED <<reqs, delivered, failed, preFail, errOnly, ownerClosed, signalled, everFaulted, silentSince, beforeSilence, qtags, peak, aged, maxTag, written, nreq>>

\* tag consumption is bounded by peak concurrency (+ requests that never reached the wire)
Bounded == maxTag <= 1 + peak + (nreq - written) + aged

ReopenCheck(t) ==
  IF Mono(t) # "ok" THEN Mono(t)
  ELSE IF On("C11") /\ ~Bounded THEN "C11.bounded"
  ELSE "ok"
ReopenUpd(t) ==
  /\ tclock' = t /\ unanswered' = {} /\ recent' = {} /\ stray' = {} /\ qtags' = {} /\ held' = {} /\ peak' = 0 /\ aged' = 0 /\ maxTag' = 0 /\ written' = 0 /\ nreq' = 0
  /\ UNCHANGED <<reqs, delivered, failed, preFail, errOnly, ownerClosed, signalled, everFaulted, silentSince, beforeSilence>>

\* the client has given request r the tag (observed on the message's properties; the request may still be queued)
TaggedCheck(r, tag, t) == Mono(t)
TaggedUpd(r, tag, t) ==
  /\ tclock' = t /\ qtags' = qtags \cup {tag}
  /\ UNCHANGED <<reqs, delivered, failed, preFail, errOnly, ownerClosed, signalled, everFaulted, silentSince, beforeSilence, unanswered, recent, stray, held, peak, aged, maxTag, written, nreq>>

\* The harness fast-forwards the connection's tag counter to k: the state of a long-lived connection on which
\* tags up to k are still reserved (requests that timed out and were never answered), without executing
\* that history.  Those notional tags count as in use.
AgeCheck(k, t) == IF Mono(t) # "ok" THEN Mono(t) ELSE IF k < maxTag THEN "harness.ageBackwards" ELSE "ok"
AgeUpd(k, t) ==
  /\ tclock' = t /\ aged' = k
  /\ UNCHANGED <<reqs, delivered, failed, preFail, errOnly, ownerClosed, signalled, everFaulted, silentSince, beforeSilence, unanswered, recent, stray, qtags, held, peak, maxTag, written, nreq>>

EndCheck(t) == ReopenCheck(t)
EndUpd(t) == QuietUpd(0, t)
=============================================================================
