SPECIFICATION Spec
CONSTANTS
  MaxPayload = 8
  Variants = {"varz", "raw"}
INVARIANT NoViolation
INVARIANT Delivered
INVARIANT Emit
CHECK_DEADLOCK FALSE
