SPECIFICATION Spec
CONSTANTS
  MinS = {0, 1}
  MaxS = {1, 2}
  QS = {0, 1}
  NReq = 3
  NConn = 3
  MaxDie = 0
  MaxTmo = 0
  ExtClose = FALSE
  FixPQ = TRUE
  FixDeq = TRUE
  FixMaxW = FALSE
INVARIANT QuietOK
CHECK_DEADLOCK FALSE
