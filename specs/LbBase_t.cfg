SPECIFICATION Spec
CONSTANTS
  Eps = {e1, e2, e3}
  MaxNotes = 6
  None = None
SYMMETRY Perms
INVARIANT NoViolation
INVARIANT QuietOK
INVARIANT Structural
CHECK_DEADLOCK FALSE
