SPECIFICATION Spec
CONSTANTS
  Names = {1, 2}
  NValues = 2
  MaxEnv = 13
  MaxInc = 5
  MaxRaise = 2
  MaxBlock = 0
INVARIANT NoViolation
INVARIANT Structural
INVARIANT Bounded
VIEW View
CHECK_DEADLOCK FALSE
