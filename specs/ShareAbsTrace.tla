---------------------------- MODULE ShareAbsTrace ----------------------------
(* Batched validation of implementation traces against ShareAbs (C16).     *)
EXTENDS ShareAbs, Json, IOUtils

Traces == ndJsonDeserialize(IOEnv.TRACE_FILE)

VARIABLES abs, tid, l, verdict
tvars == <<tid, l, verdict>>

Ev == Traces[tid].ev

TInit == /\ tid \in 1..Len(Traces)
         /\ l = 1
         /\ verdict = "ok"
         /\ abs = A0(Traces[tid].cfg.kind)

TNext == /\ verdict = "ok"
         /\ l <= Len(Ev)
         /\ LET e == Ev[l]
                chk == EvCheck(abs, e)
            IN IF chk = "ok"
               THEN abs' = EvUpd(abs, e) /\ l' = l + 1 /\ verdict' = "ok"
               ELSE verdict' = chk /\ l' = l /\ UNCHANGED abs
         /\ UNCHANGED tid

TSpec == TInit /\ [][TNext]_<<abs, tvars>>

Done == verdict # "ok" \/ l > Len(Ev)
Report == Done => PrintT(<<"V", tid, l - 1, verdict>>)
=============================================================================
