SPECIFICATION Spec
CONSTANTS
  Subs = {1, 2}
  Vals = {1}
  MaxSets = 2
INVARIANT GetIsLastSet
PROPERTY QuietAfterUnsubscribe
PROPERTY OneShotOnce
CHECK_DEADLOCK FALSE
