---------------------------- MODULE MuxTransport ----------------------------
(***************************************************************************)
(* Code-shaped model of scales/mux/sink.py MuxSocketTransportSink + TagPool *)
(* and the ThriftMux specifics of scales/thriftmux/sink.py (C11, C08).      *)
(*                                                                         *)
(*   pool      [next, free]        TagPool._next / _set                      *)
(*   tagmap    tag -> request      _tag_map                                  *)
(*   tagkey    request -> tag | 0  msg.properties[Tag.KEY]                   *)
(*   sendq     FIFO of <<kind, tag, req>>   _send_queue (kind "req"|"disc") *)
(*   inbound   FIFO of <<type, tag>>        frames the peer sent, unread     *)
(*   replyq    FIFO of <<type, tag>>        spawned _ProcessReply greenlets  *)
(*   tproc     set of requests with a pending (deferred) timeout_proc        *)
(*   evt[r]    Deadline.EVENT_KEY is set; sub[r]: the send loop subscribed   *)
(*   unans     peer's view: tags written and not yet answered                *)
(* One action per quantum: Request, SendStep, RecvStep, ProcessReply,       *)
(* Timeout (the caller's timer), TimeoutProc, PeerAnswer / PeerStray (the   *)
(* peer sends a frame), Fault (read/write error or ping silence: _Shutdown).*)
(* MaxTag is scaled down so pool exhaustion is reachable.                   *)
(* FixRelease = TRUE: _ReleaseTag returns only outstanding tags to the pool *)
(* (3c8df46); FALSE is the code as it was.                                  *)
(* FixSent = TRUE: _ProcessTaggedReply drops a frame naming a tag whose     *)
(* request is still in the send queue (the peer cannot be answering it);    *)
(* FALSE is the code as it was: the frame completes the queued request and  *)
(* frees its tag, which is then on the wire twice.                          *)
(* The adversarial peer may name any tag 0..MaxTag at any time.  One case   *)
(* is outside the claim: a stray frame (naming a tag that was not on the    *)
(* wire when the peer sent it) that the client gets to process after it has *)
(* given that very tag to a request AND written that request -- no client  *)
(* can tell it from the answer.  Such a run is marked `strayset = {0}` (tainted) and uniqueness  *)
(* is not asserted on it; TransportAbs makes the matching allowance.        *)
(***************************************************************************)
EXTENDS Integers, Sequences, FiniteSets, TLC

CONSTANTS Reqs, MaxTag, FixRelease, FixSent, MaxStray

VARIABLES st, pool, tagmap, tagkey, sendq, inbound, replyq, tproc, evt, sub, unans,
          got, viol, strays, written, strayset

vars == <<st, pool, tagmap, tagkey, sendq, inbound, replyq, tproc, evt, sub, unans, got, viol, strays, written, strayset>>

Init ==
  /\ st = "Open"
  /\ pool = [next |-> 1, free |-> {}]
  /\ tagmap = <<>>
  /\ tagkey = [r \in Reqs |-> 0]
  /\ sendq = <<>> /\ inbound = <<>> /\ replyq = <<>> /\ tproc = {}
  /\ evt = [r \in Reqs |-> FALSE] /\ sub = [r \in Reqs |-> FALSE]
  /\ unans = {}
  /\ got = [r \in Reqs |-> 0]
  /\ viol = "ok"
  /\ strays = 0
  /\ written = {}
  /\ strayset = {}

Note(c) == viol' = IF viol = "ok" THEN c ELSE viol

\* TagPool.get(): reuse a released tag, else allocate the next one; raises when exhausted
CanGet == pool.free # {} \/ pool.next # MaxTag - 1

\* _ReleaseTag(tag): pop the map entry; return the tag to the pool
Release(tag, tm, pl) ==
  [map |-> [t \in DOMAIN tm \ {tag} |-> tm[t]],
   pool |-> IF FixRelease /\ tag \notin DOMAIN tm THEN pl ELSE [pl EXCEPT !.free = @ \cup {tag}]]

Deliver(r) == got' = [got EXCEPT ![r] = IF got[r] = 0 THEN 1 ELSE got[r]]   \* a drained stack ignores it

\* ---- upstream --------------------------------------------------------------------
Request(r) ==
  /\ st = "Open" /\ tagkey[r] = 0 /\ got[r] = 0
  /\ ~(\E t \in DOMAIN tagmap : tagmap[t] = r)
  /\ ~evt[r]
  /\ CanGet
  /\ \E tag \in (IF pool.free # {} THEN pool.free ELSE {pool.next + 1}) :
       /\ pool' = IF pool.free # {} THEN [pool EXCEPT !.free = @ \ {tag}] ELSE [pool EXCEPT !.next = @ + 1]
       /\ tagmap' = (tag :> r) @@ tagmap
       /\ tagkey' = [tagkey EXCEPT ![r] = tag]
       /\ sendq' = Append(sendq, <<"req", tag, r>>)
  /\ UNCHANGED <<st, inbound, replyq, tproc, evt, sub, unans, got, viol, strays, written, strayset>>

\* the caller's timer: the timeout event is set (deferred notification), the stack is drained
Timeout(r) ==
  /\ tagkey[r] # 0 \/ (\E i \in DOMAIN sendq : sendq[i][3] = r)
  /\ ~evt[r] /\ got[r] = 0
  /\ evt' = [evt EXCEPT ![r] = TRUE]
  /\ Deliver(r)
  /\ tproc' = IF sub[r] THEN tproc \cup {r} ELSE tproc
  /\ UNCHANGED <<st, pool, tagmap, tagkey, sendq, inbound, replyq, sub, unans, viol, strays, written, strayset>>

\* timeout_proc (one-shot subscriber): pop Tag.KEY; if it was still there send Tdiscarded
TimeoutProc(r) ==
  /\ r \in tproc
  /\ tproc' = tproc \ {r}
  /\ IF tagkey[r] # 0 /\ st = "Open"
     THEN sendq' = Append(sendq, <<"disc", tagkey[r], r>>)
     ELSE UNCHANGED sendq
  /\ tagkey' = [tagkey EXCEPT ![r] = 0]
  /\ UNCHANGED <<st, pool, tagmap, inbound, replyq, evt, sub, unans, got, viol, strays, written, strayset>>

\* ---- the send loop -------------------------------------------------------------------
SendStep ==
  /\ st = "Open" /\ sendq # <<>>
  /\ LET m == Head(sendq) kind == m[1] tag == m[2] r == m[3] IN
     /\ sendq' = Tail(sendq)
     /\ IF kind = "disc"
        THEN UNCHANGED <<pool, tagmap, tagkey, sub, unans, viol, written, strayset>>
        ELSE IF evt[r]
        THEN \* _HandleTimeout: timed out in the queue: pop Tag.KEY, release, do not send
             LET k == tagkey[r]
                 rel == Release(k, tagmap, pool) IN
             /\ tagkey' = [tagkey EXCEPT ![r] = 0]
             /\ IF k # 0 THEN tagmap' = rel.map /\ pool' = rel.pool ELSE UNCHANGED <<tagmap, pool>>
             /\ UNCHANGED <<sub, unans, viol, written, strayset>>
        ELSE \* subscribe the discard sender, write the frame
             /\ sub' = [sub EXCEPT ![r] = TRUE]
             /\ Note(IF tag < 2 \/ tag > MaxTag - 1 THEN "C11.range"
                     ELSE IF tag \in unans THEN "C11.unique" ELSE "ok")
                          /\ unans' = unans \cup {tag}
             /\ written' = written \cup {tag}
             /\ UNCHANGED strayset
             /\ UNCHANGED <<pool, tagmap, tagkey>>
  /\ UNCHANGED <<st, inbound, replyq, tproc, evt, got, strays>>

\* ---- the peer --------------------------------------------------------------------------
\* answers an outstanding tag (in any order)
PeerAnswer(tag) ==
  /\ st = "Open" /\ tag \in unans
  /\ unans' = unans \ {tag}
  /\ inbound' = Append(inbound, <<-2, tag>>)
  /\ UNCHANGED <<st, pool, tagmap, tagkey, sendq, replyq, tproc, evt, sub, got, viol, strays, written, strayset>>

\* adversarial frame: duplicate answer, unknown tag, reserved tag with a non-ping type
AllocatedUnwritten == {sendq[i][2] : i \in {j \in DOMAIN sendq : sendq[j][1] = "req"}}
PeerStray(tag) ==
  /\ st = "Open" /\ strays < MaxStray
  /\ tag \notin unans
  /\ strays' = strays + 1
  /\ inbound' = Append(inbound, <<-3, tag>>)      \* type -3 marks a stray frame in the model
  /\ UNCHANGED <<st, pool, tagmap, tagkey, sendq, replyq, tproc, evt, sub, unans, got, viol, written, strayset>>

\* ---- the receive loop --------------------------------------------------------------------
RecvStep ==
  /\ st = "Open" /\ inbound # <<>>
  /\ replyq' = Append(replyq, Head(inbound)) /\ inbound' = Tail(inbound)
  /\ UNCHANGED <<st, pool, tagmap, tagkey, sendq, tproc, evt, sub, unans, got, viol, strays, written, strayset>>

\* _ProcessReply -> _ProcessTaggedReply -> _ReleaseTag
ProcessReply ==
  /\ replyq # <<>>
  /\ LET tag == Head(replyq)[2] IN
     /\ replyq' = Tail(replyq)
     /\ strayset' = IF Head(replyq)[1] = -3 /\ tag \in DOMAIN tagmap /\ tag \notin AllocatedUnwritten THEN {0} ELSE strayset
     /\ IF tag = 0 \/ st # "Open" \/ (FixSent /\ tag \in DOMAIN tagmap /\ tag \in AllocatedUnwritten)
        THEN UNCHANGED <<pool, tagmap, tagkey, got>>
        ELSE LET rel == Release(tag, tagmap, pool) IN
             /\ tagmap' = rel.map /\ pool' = rel.pool
             /\ IF tag \in DOMAIN tagmap
                THEN /\ tagkey' = [tagkey EXCEPT ![tagmap[tag]] = 0]
                     /\ Deliver(tagmap[tag])
                ELSE UNCHANGED <<tagkey, got>>
  /\ UNCHANGED <<st, sendq, inbound, tproc, evt, sub, unans, viol, strays, written>>

\* read/write error, EOF or ping silence: _Shutdown fails everything in the tag map
Fault ==
  /\ st = "Open"
  /\ st' = "Closed"
  /\ got' = [r \in Reqs |-> IF (\E t \in DOMAIN tagmap : tagmap[t] = r) /\ got[r] = 0 THEN 1 ELSE got[r]]
  /\ tagmap' = <<>> /\ sendq' = <<>> /\ inbound' = <<>> /\ unans' = {}
  /\ UNCHANGED <<pool, tagkey, replyq, tproc, evt, sub, viol, strays, written, strayset>>

Next ==
  \/ \E r \in Reqs : Request(r) \/ Timeout(r) \/ TimeoutProc(r)
  \/ SendStep \/ RecvStep \/ ProcessReply \/ Fault
  \/ \E tag \in 0..MaxTag : PeerAnswer(tag) \/ PeerStray(tag)

Spec == Init /\ [][Next]_vars

\* ------------------------------------------------------------------ properties
Tainted == strayset # {}
NoViolation == Tainted \/ viol = "ok"
\* pool structure: free tags are never in use, nothing reserved is ever in the pool (repaired code)
PoolSane == FixRelease =>
  /\ pool.free \cap DOMAIN tagmap = {}
  /\ \A t \in pool.free : t >= 2 /\ t <= pool.next
\* C11.bounded: tags are allocated fresh only when every allocated tag is in use
Bounded == (FixRelease /\ st = "Open") => pool.next <= 1 + Cardinality(DOMAIN tagmap) + Cardinality(pool.free)
\* C08.failOnce on shutdown: after the fault nothing that was in the tag map stays unanswered
ShutdownFailsAll == st = "Closed" => \A r \in Reqs : (tagkey[r] # 0 /\ ~evt[r]) => got[r] = 1
=============================================================================
