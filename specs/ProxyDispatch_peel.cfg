SPECIFICATION Spec
CONSTANTS
  NCalls = 2
  Design = "chain"
  SharedClosure = FALSE
  Kinds = {"value", "raise"}
  PeelLosesError = TRUE
INVARIANT NoViolation
INVARIANT QuiescentOK
INVARIANT TypeOK
CHECK_DEADLOCK FALSE
