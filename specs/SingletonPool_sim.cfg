SPECIFICATION Spec
CONSTANTS
  MaxOpen = 3
  MaxClose = 4
  MaxReq = 3
  MaxConn = 4
  MaxFail = 3
  EagerRelease = FALSE
CONSTRAINT Bound
INVARIANT NoViolation
INVARIANT Structural
CHECK_DEADLOCK FALSE
