SPECIFICATION Spec
CONSTANTS
  Eps = {e1, e2, e3}
  MaxNotes = 6
  None = None
  Calls = {}
  JoinWaits = TRUE
  PopFirst = TRUE
  BadClose = {1, 2, 3, 5, 8}
  GateBySubscription = FALSE
INVARIANT NoViolation
INVARIANT QuietOK
INVARIANT Structural
INVARIANT NoDeadDispatch
CHECK_DEADLOCK FALSE
