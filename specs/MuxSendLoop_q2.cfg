SPECIFICATION Spec
CONSTANTS
  Calls = {1, 2}
  HasDl = {1}
  MaxPings = 1
  Rooms = {0, 20}
  Drains = {9, 60}
  Cap = 60
  Lowat = 12
  Variant = "asis"
INVARIANT TypeOK
INVARIANT WholeFramesInOrder
INVARIANT AbsAccepts
CHECK_DEADLOCK FALSE
