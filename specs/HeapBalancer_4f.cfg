SPECIFICATION Spec
CONSTANTS
  MaxNodes = 4
  Eps = {1,2,3}
  InitN = 3
  MaxLoad = 1
  P = 100
  Repaired = TRUE
  Faults = TRUE
  Membership = TRUE
  TrackLate = FALSE
  Noise = FALSE
  Aperture = FALSE
  MinSize = 1
  StaleSize = FALSE
  Light = FALSE
INVARIANT NoViolation
INVARIANT HeapOrder
INVARIANT Structural
CHECK_DEADLOCK FALSE
