SPECIFICATION PSpec
CONSTANTS
  MaxLen = 5
  Probes = {"prov"}
  LookupInherited = FALSE
  OneShot = TRUE
INVARIANT SplitJoin
INVARIANT TcpRoundTrip
INVARIANT ZkRoundTrip
INVARIANT OtherRejected
INVARIANT NamesLaw
INVARIANT CacheFaithful
INVARIANT ProviderIsValue
CHECK_DEADLOCK FALSE
