SPECIFICATION Spec
CONSTANTS
  CombSet = {"ContinueWith"}
  N = 2
  Fixed = TRUE
  Follow = TRUE
INVARIANT NoViolation
INVARIANT Structural
CHECK_DEADLOCK FALSE
