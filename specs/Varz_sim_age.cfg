SPECIFICATION Spec
CONSTANTS
  Kinds <- K_tc
  Tuples <- T2
  Amts = {1, 2}
  GVals = {1}
  SVals = {1, 3, 5}
  Cap = 2
  MaxOps = 9
  Sels = {"default", "tuple", "service"}
  SourceEq = TRUE
  Interleave = TRUE
  MaxAge = 2
  MaxNow = 7
  Ticks = {1, 2}
  Design = "tree"
CHECK_DEADLOCK FALSE
