---------------------------- MODULE TimerAbsTrace ----------------------------
(* Batched validation of implementation traces against TimerAbs (C10).     *)
EXTENDS TimerAbs, Json, IOUtils

Traces == ndJsonDeserialize(IOEnv.TRACE_FILE)

VARIABLES tid, l, verdict
tvars == <<tid, l, verdict>>

Ev == Traces[tid].ev

TInit == /\ tid \in 1..Len(Traces)
         /\ l = 1
         /\ verdict = "ok"
         /\ AInitS(Traces[tid].cfg.res, Traces[tid].cfg.t0, Traces[tid].cfg.slack)

CheckOf(e) ==
  CASE e.e = "S" -> SchedCheck(e.id, e.T, e.t)
    [] e.e = "C" -> CancelCheck(e.id, e.t)
    [] e.e = "R" -> RunCheck(e.id, e.t)
    [] e.e = "Q" -> QuietCheck(e.t)
    [] OTHER -> "harness.unknownEvent"

UpdOf(e) ==
  CASE e.e = "S" -> SchedUpd(e.id, e.T, e.t)
    [] e.e = "C" -> CancelUpd(e.id, e.t)
    [] e.e = "R" -> RunUpd(e.id, e.t)
    [] e.e = "Q" -> QuietUpd(e.t)

TNext == /\ verdict = "ok"
         /\ l <= Len(Ev)
         /\ LET e == Ev[l]
                chk == CheckOf(e)
            IN IF chk = "ok"
               THEN UpdOf(e) /\ l' = l + 1 /\ verdict' = "ok"
               ELSE verdict' = chk /\ l' = l /\ UNCHANGED avars
         /\ UNCHANGED tid

TSpec == TInit /\ [][TNext]_<<avars, tvars>>

Done == verdict # "ok" \/ l > Len(Ev)
Report == Done => PrintT(<<"V", tid, l - 1, verdict>>)
=============================================================================
