SPECIFICATION Spec
CONSTANTS
  CombSet = {"WhenAny"}
  N = 4
  Fixed = FALSE
  Follow = FALSE
INVARIANT NoViolation
INVARIANT Structural
CHECK_DEADLOCK FALSE
