SPECIFICATION Spec
CONSTANTS
  Reqs = {1, 2, 3}
  MaxTag = 7
  FixSent = TRUE
  ReleaseOnTimeout = FALSE
INVARIANT NoViolation
INVARIANT EndClause
INVARIANT PoolSane
INVARIANT UniqueAtBroker
CHECK_DEADLOCK FALSE
