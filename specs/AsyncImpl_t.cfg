SPECIFICATION Spec
CONSTANTS
  CombSet = {"WhenAll", "WhenAny", "Unwrap"}
  N = 5
  Fixed = TRUE
  Follow = FALSE
INVARIANT NoViolation
INVARIANT Structural
CHECK_DEADLOCK FALSE
