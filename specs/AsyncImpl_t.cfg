SPECIFICATION Spec
CONSTANTS
  CombSet = {"WhenAll", "WhenAny", "Unwrap"}
  N = 5
  Fixed = TRUE
INVARIANT NoViolation
INVARIANT Structural
CHECK_DEADLOCK FALSE
