SPECIFICATION Spec
CONSTANTS
  Names = {1, 2}
  MaxEnv = 5
  MaxInc = 2
  MaxRaise = 0
INVARIANT NoViolation
INVARIANT Structural
INVARIANT Bounded
VIEW View
CHECK_DEADLOCK FALSE
