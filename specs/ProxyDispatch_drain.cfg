SPECIFICATION Spec
CONSTANTS
  NCalls = 3
  Design = "drain"
  SharedClosure = FALSE
  Kinds = {"value", "raise"}
  PeelLosesError = FALSE
INVARIANT NoViolation
INVARIANT QuiescentOK
INVARIANT TypeOK
CHECK_DEADLOCK FALSE
