----------------------------- MODULE TimerQueue -----------------------------
(***************************************************************************)
(* Code-shaped model of scales/timer_queue.py TimerQueue (C10).             *)
(*                                                                         *)
(* One action per quantum of the gevent loop:                              *)
(*   RunTask   pop the head of the FIFO run queue: the worker's start or    *)
(*             its resumption from sleep(0), the Event's notifier callback *)
(*             (which switches into the linked worker inside the same      *)
(*             quantum), or a spawned timer action;                        *)
(*   TimerFire the worker's wait(to_wait) timer expires (resumes the       *)
(*             worker inside the timer callback, wait returns False);      *)
(*   Schedule / Cancel  API calls from other greenlets, between any two    *)
(*             quanta;                                                     *)
(*   Tick      virtual time advances (only up to the next armed timer).    *)
(* The worker's code between two yields is the recursive operator Loop.    *)
(* gevent.Event: set() makes the flag true and, if a waiter is linked and  *)
(* no notifier is pending, queues one notifier; the notifier resumes the   *)
(* waiter even if the flag was cleared meanwhile; wait() on a set flag     *)
(* returns at once unless a notifier is pending (then it parks until that  *)
(* notifier runs); a timed-out waiter unlinks itself.                      *)
(* The property-level machine TimerAbs runs in lock-step on ghost          *)
(* variables; `viol` records the first clause of C10 an action breaks.     *)
(***************************************************************************)
EXTENDS TimerAbs

CONSTANTS Ids,        \* timer ids
          Res,        \* resolution in time units (0 = off)
          MaxT,       \* largest raw deadline / clock value
          NoPc        \* model value

VARIABLES now, q, seqc, flag, notif, linked, wpc, wake, peek, runq, viol
ivars == <<now, q, seqc, flag, notif, linked, wpc, wake, peek, runq>>
vars == <<ivars, avars, viol>>

Entry(id) == CHOOSE e \in q : e.id = id
Less(a, b) == a.dl < b.dl \/ (a.dl = b.dl /\ a.seq < b.seq)
QMin(qq) == CHOOSE e \in qq : \A f \in qq \ {e} : Less(e, f)

\* --- the Event --------------------------------------------------------------
\* st is a record of all mutable implementation state except `now`.
St == [q |-> q, flag |-> flag, notif |-> notif, linked |-> linked, wpc |-> wpc,
       wake |-> wake, peek |-> peek, runq |-> runq, spawned |-> <<>>]

EvSet(s) == IF s.linked /\ ~s.notif
            THEN [s EXCEPT !.flag = TRUE, !.notif = TRUE, !.runq = Append(s.runq, <<"N", 0>>)]
            ELSE [s EXCEPT !.flag = TRUE]

\* --- the worker, from the top of its loop to its next yield -------------------
RECURSIVE Loop(_, _), AfterSleep(_, _), Pop(_, _), AfterEmptyCheck(_, _)
AfterEmptyCheck(s, t) ==
  LET s1 == IF s.flag THEN [s EXCEPT !.flag = FALSE] ELSE s IN
  IF s.flag
  THEN \* clear(); gevent.sleep(0)
       [s1 EXCEPT !.wpc = "Y2", !.runq = Append(s1.runq, <<"W", 0>>)]
  ELSE AfterSleep(s1, t)

\* after sleep(0) (or directly when the flag was not set): peek, wait or pop
AfterSleep(s, t) ==
  IF s.q = {} THEN [s EXCEPT !.wpc = "DEAD"]        \* _PeekNext on an empty queue: IndexError
  ELSE LET h == QMin(s.q) IN
    IF h.canc THEN Loop([s EXCEPT !.q = s.q \ {h}], t)
    ELSE IF h.dl - t > 0
    THEN \* self._event.wait(to_wait)
         IF s.flag
         THEN IF s.notif
              THEN [s EXCEPT !.wpc = "Y3n", !.linked = TRUE, !.peek = h.seq]  \* parks until the pending notifier, no timer
              ELSE Loop(s, t)                                          \* wait returns True at once: re-loop
         ELSE [s EXCEPT !.wpc = "Y3", !.linked = TRUE, !.wake = h.dl, !.peek = h.seq]
    ELSE Pop(s, t)

Pop(s, t) ==
  LET h == QMin(s.q)
      s1 == [s EXCEPT !.q = s.q \ {h}]
  IN IF h.canc THEN Loop(s1, t)
     ELSE Loop([s1 EXCEPT !.runq = Append(s1.runq, <<"A", h.id>>)], t)

Loop(s, t) ==
  IF s.q = {}
  THEN \* self._event.wait()
       IF s.flag
       THEN IF s.notif THEN [s EXCEPT !.wpc = "Y1", !.linked = TRUE]
            ELSE AfterEmptyCheck(s, t)
       ELSE [s EXCEPT !.wpc = "Y1", !.linked = TRUE]
  ELSE AfterEmptyCheck(s, t)

\* resumption of the worker from each parked point
ResumeNotified(s, t) ==   \* by the notifier: wait() returned True
  LET s1 == [s EXCEPT !.linked = FALSE, !.wake = -1] IN
  CASE s.wpc = "Y1" -> AfterEmptyCheck(s1, t)
    [] s.wpc \in {"Y3", "Y3n"} -> Loop(s1, t)   \* wait_timed_out = False: re-loop

ResumeTimedOut(s, t) ==   \* wait(to_wait) returned False
  Pop([s EXCEPT !.linked = FALSE, !.wake = -1], t)

Install(s) ==
  /\ q' = s.q /\ flag' = s.flag /\ notif' = s.notif /\ linked' = s.linked
  /\ wpc' = s.wpc /\ wake' = s.wake /\ peek' = s.peek /\ runq' = s.runq

Init ==
  /\ now = 0 /\ q = {} /\ seqc = 0 /\ flag = FALSE /\ notif = FALSE /\ linked = FALSE
  /\ wpc = "Y0" /\ wake = -1 /\ peek = 0 /\ runq = <<<<"W", 0>>>>
  /\ AInit(Res, 0)
  /\ viol = "ok"

Note(chk) == viol' = IF viol = "ok" THEN chk ELSE viol

RunTask ==
  /\ runq # <<>>
  /\ LET task == Head(runq)
         s0 == [St EXCEPT !.runq = Tail(runq)]
     IN \/ /\ task[1] = "W"
           /\ Install(IF wpc = "Y0" THEN Loop(s0, now) ELSE AfterSleep(s0, now))
           /\ UNCHANGED <<now, seqc, avars, viol>>
        \/ /\ task[1] = "N"
           /\ Install(IF linked THEN ResumeNotified([s0 EXCEPT !.notif = FALSE], now)
                      ELSE [s0 EXCEPT !.notif = FALSE])
           /\ UNCHANGED <<now, seqc, avars, viol>>
        \/ /\ task[1] = "A"
           /\ Install(s0)
           /\ Note(RunCheck(task[2], now))
           /\ RunUpd(task[2], now)
           /\ UNCHANGED <<now, seqc>>

TimerFire ==
  /\ wpc = "Y3" /\ wake >= 0 /\ now >= wake
  /\ Install(ResumeTimedOut(St, now))
  /\ UNCHANGED <<now, seqc, avars, viol>>

Schedule(id, T) ==
  /\ id \notin DOMAIN sched
  /\ LET dl == Round(Res, T)
         e == [dl |-> dl, seq |-> seqc + 1, id |-> id, canc |-> FALSE]
         s1 == [St EXCEPT !.q = q \cup {e}]
         s2 == IF QMin(s1.q).dl = dl THEN EvSet(s1) ELSE s1
     IN /\ Install(s2)
        /\ seqc' = seqc + 1
  /\ Note(SchedCheck(id, T, now))
  /\ SchedUpd(id, T, now)
  /\ UNCHANGED now

CancelT(id) ==
  /\ id \in DOMAIN sched
  /\ q' = {IF e.id = id THEN [e EXCEPT !.canc = TRUE] ELSE e : e \in q}
  /\ Note(CancelCheck(id, now))
  /\ CancelUpd(id, now)
  /\ UNCHANGED <<now, seqc, flag, notif, linked, wpc, wake, peek, runq>>

\* Time passes only when the run queue is empty, and never beyond an armed timer.
Tick ==
  /\ runq = <<>>
  /\ now < MaxT
  /\ ~(wpc = "Y3" /\ wake <= now)
  /\ now' = now + 1
  /\ Note(QuietCheck(now))
  /\ UNCHANGED <<q, seqc, flag, notif, linked, wpc, wake, peek, runq, avars>>

Next == \/ RunTask \/ TimerFire \/ Tick
        \/ \E id \in Ids, T \in 0..MaxT : Schedule(id, T)
        \/ \E id \in Ids : CancelT(id)

Spec == Init /\ [][Next]_vars

\* ------------------------------------------------------------------ properties
NoViolation == viol = "ok"
WorkerAlive == wpc # "DEAD"
\* at the end of time, quiescent: nothing is lost
FinalQuiet == (now = MaxT /\ runq = <<>> /\ ~(wpc = "Y3" /\ wake <= now)) => QuietCheck(now) = "ok"
\* structural: a pending notifier implies the flag was set since; a parked worker is linked
Structural ==
  /\ (wpc \in {"Y1", "Y3", "Y3n"}) = linked
  /\ (wpc = "Y3") => (wake >= 0 /\ \E e \in q : e.seq = peek)
  /\ (wpc = "Y1" /\ ~notif) => (q = {} \/ flag)
  /\ (wpc \in {"Y1", "Y3n"} /\ ~notif /\ flag) => FALSE
  /\ (wpc = "Y2") => (\E i \in DOMAIN runq : runq[i][1] = "W")
\* the critical log line of the code ("seq != peeked_seq") is reachable only for overdue heads
=============================================================================
