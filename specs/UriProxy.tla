------------------------------ MODULE UriProxy ------------------------------
(***************************************************************************)
(* C20 -- generated proxies and URI parsing (property-level oracle).       *)
(*                                                                         *)
(* All-inputs property of pure functions: the spec defines the reference   *)
(* functions over sequences of code points (TLC strings are atomic, so     *)
(* text is Seq(Nat)) and recorded (input, output) pairs of the real code   *)
(* are validated against them.  UriProxyCheck.tla checks the reference     *)
(* functions' own consistency on a bounded alphabet.                       *)
(*                                                                         *)
(* Reference functions                                                     *)
(*   UserMethods(names)   names the code may proxy: neither starting nor   *)
(*                        ending with "__" (scales/core.py is_user_method) *)
(*   PublicMethods(names) names every reading of "public method" agrees    *)
(*                        on: no leading "_" and not ending with "__";     *)
(*                        only these MUST be exposed                       *)
(*   ProxyNames(U)        U \cup {m \o "_async" : m \in U}                 *)
(*   Target(names, n)     which (method, form) attribute n of a proxy      *)
(*                        stands for                                       *)
(*   ParseTcp, ParseZk, ParseUri                                           *)
(*                                                                         *)
(* Observable events                                                       *)
(*   Iface(i, names, sync, async)   a client class was generated for       *)
(*       interface i whose function-valued attributes (own and inherited)  *)
(*       are `names`; `sync` / `async` = the attribute names that, when    *)
(*       called on an instance, reached the dispatcher and returned a      *)
(*       plain result / a pending result                                   *)
(*   Fwd(i, n, in, rec, prog, res)  attribute n was called with arguments  *)
(*       `in`; `rec` is what the dispatcher received; `prog` is the        *)
(*       outcome the dispatcher was programmed to produce; `res` what the  *)
(*       caller observed                                                   *)
(*   Uri(uri, res)                  ScalesUriParser.Parse(uri) returned /  *)
(*       raised `res`.  The provider a URI yields is a value: the driver   *)
(*       queries it several times (also after other URIs were parsed, and  *)
(*       from two clients built off one SetUri) and every query is one Uri *)
(*       event, judged alike ("failed" = the query raised).  Several       *)
(*       related interfaces of one hierarchy proxied in one process are    *)
(*       likewise one Iface (+ Fwd) event each, judged alike.              *)
(*                                                                         *)
(* Clauses                                                                 *)
(*   C20.exposes       every public method is exposed in both forms        *)
(*   C20.forward       the dispatcher received the method name, the        *)
(*                     positional and the keyword arguments unchanged      *)
(*   C20.syncResult    the blocking form returns the call's value or       *)
(*                     raises its error                                    *)
(*   C20.asyncResult   the _async form returns the pending result          *)
(*   C20.tcpEndpoints  tcp:// yields exactly the listed endpoints in order *)
(*   C20.zkProvider    zk:// yields a ZooKeeper-backed provider for the    *)
(*                     given hosts, path and optional endpoint name (path  *)
(*                     and name as given, case sensitive; host names       *)
(*                     compared case-insensitively, also for tcp://)       *)
(*   C20.rejectsOther  any other scheme is rejected                        *)
(*                                                                         *)
(* End-to-end events (the generated client over the real dispatcher over a *)
(* recording sink that answers when and in the order the scenario chooses; *)
(* several calls outstanding at once, made before / after the client's     *)
(* open completed).  The call machine and its clauses are in ProxyCalls;   *)
(* here the attribute that was called is resolved to (method, form):       *)
(*   Client(i, names, built)     a client for interface i was built        *)
(*   Reopen(wait)                DispatcherOpen() called again (marker)    *)
(*   Call(i, cid, n, in)         attribute n called with arguments `in`    *)
(*   SinkRecv(seq, rec)          the sink received a method-call message   *)
(*   Reply(seq, kind, tok)       the sink answered message seq             *)
(*   Ret(cid, kind)              the _async form returned (a result object *)
(*                               "pending" / "completed", or anything else)*)
(*   Result(cid, kind, tok)      the blocking form returned / raised; the  *)
(*                               _async form's result object yielded       *)
(*   End(opened)                 scenario over, loop quiescent             *)
(*   C20.built         the builder hands out a client                      *)
(*   C20.forward / C20.forwardOnce / C20.syncResult / C20.asyncResult: see *)
(*   ProxyCalls (each call reaches the sink once, unchanged, and gets the  *)
(*   answer to its own message).                                           *)
(***************************************************************************)
EXTENDS Integers, Sequences, SequencesExt, FiniteSets, TLC, ProxyCalls

\* ---------------------------------------------------------------- text helpers
US == 95          \* "_"
AsyncSuffix == <<95, 97, 115, 121, 110, 99>>       \* "_async"

StartsWith(s, p) == Len(s) >= Len(p) /\ SubSeq(s, 1, Len(p)) = p
EndsWith(s, p) == Len(s) >= Len(p) /\ SubSeq(s, Len(s) - Len(p) + 1, Len(s)) = p

\* split s on code point c (like Python's s.split(c)): always at least one part
Split(s, c) ==
  FoldLeft(LAMBDA acc, x : IF x = c THEN Append(acc, <<>>)
                           ELSE [acc EXCEPT ![Len(acc)] = Append(@, x)],
           <<<<>>>>, s)

Join(parts, c) ==
  FoldLeft(LAMBDA acc, i : IF i = 1 THEN parts[1] ELSE acc \o <<c>> \o parts[i],
           <<>>, [i \in 1..Len(parts) |-> i])

\* first index of code point c in s, 0 if absent
IndexOf(s, c) == SelectInSeq(s, LAMBDA x : x = c)

IsDigit(x) == x >= 48 /\ x <= 57
AllDigits(s) == s # <<>> /\ \A i \in DOMAIN s : IsDigit(s[i])
ParseNat(s) == FoldLeft(LAMBDA acc, x : acc * 10 + (x - 48), 0, s)

\* ---------------------------------------------------------------- proxies
Dunder == <<US, US>>
UserMethods(names) == {n \in names : ~StartsWith(n, Dunder) /\ ~EndsWith(n, Dunder)}
PublicMethods(names) == {n \in names : n # <<>> /\ n[1] # US /\ ~EndsWith(n, Dunder)}
ProxyNames(U) == U \cup {m \o AsyncSuffix : m \in U}

StripAsync(n) == SubSeq(n, 1, Len(n) - Len(AsyncSuffix))

\* An interface is in the domain if no method is named like another one's async form.
NoCollision(names) == \A n \in names : ~(EndsWith(n, AsyncSuffix) /\ StripAsync(n) \in names)

\* what attribute n of the generated client stands for
Target(names, n) ==
  IF n \in names THEN [ok |-> TRUE, m |-> n, form |-> "sync"]
  ELSE IF EndsWith(n, AsyncSuffix) /\ StripAsync(n) \in names
    THEN [ok |-> TRUE, m |-> StripAsync(n), form |-> "async"]
  ELSE [ok |-> FALSE, m |-> <<>>, form |-> "none"]

\* ---------------------------------------------------------------- URIs
Colon == 58  Slash == 47  Comma == 44  Hash == 35
SchemeSep == <<58, 47, 47>>       \* "://"
Tcp == <<116, 99, 112>>           \* "tcp"
Zk == <<122, 107>>                \* "zk"

SepAt(s) == {i \in 1..(Len(s) - 2) : SubSeq(s, i, i + 2) = SchemeSep}
HasScheme(s) == SepAt(s) # {}
SchemeIdx(s) == CHOOSE i \in SepAt(s) : \A j \in SepAt(s) : i <= j
Scheme(s) == IF HasScheme(s) THEN SubSeq(s, 1, SchemeIdx(s) - 1) ELSE <<>>
AfterScheme(s) == SubSeq(s, SchemeIdx(s) + 3, Len(s))

\* authority = up to the first "/" or "#"; path = from the first "/" up to "#";
\* fragment = after "#"
CutAt(s, c) == LET i == IndexOf(s, c) IN IF i = 0 THEN s ELSE SubSeq(s, 1, i - 1)
AfterAt(s, c) == LET i == IndexOf(s, c) IN IF i = 0 THEN <<>> ELSE SubSeq(s, i + 1, Len(s))
Authority(r) == CutAt(CutAt(r, Hash), Slash)
PathOf(r) == LET nofrag == CutAt(r, Hash)
                 i == IndexOf(nofrag, Slash)
             IN IF i = 0 THEN <<>> ELSE SubSeq(nofrag, i, Len(nofrag))
Fragment(r) == AfterAt(r, Hash)

HostPort(sv) == LET p == Split(sv, Colon) IN [h |-> p[1], p |-> ParseNat(p[2])]
WellFormedServer(sv) ==
  LET p == Split(sv, Colon) IN Len(p) = 2 /\ p[1] # <<>> /\ AllDigits(p[2]) /\ Len(p[2]) <= 5
WellFormedServers(auth) ==
  auth # <<>> /\ \A i \in DOMAIN Split(auth, Comma) : WellFormedServer(Split(auth, Comma)[i])

\* tcp://h1:p1,h2:p2,...  ->  << [h, p], ... >> in order
ParseTcp(r) == LET svs == Split(Authority(r), Comma) IN [i \in DOMAIN svs |-> HostPort(svs[i])]

\* zk://hosts/path[#endpoint]  ->  [hosts (set), path, hasEp, ep]
ParseZk(r) ==
  LET svs == Split(Authority(r), Comma) IN
  [hosts |-> {HostPort(svs[i]) : i \in DOMAIN svs}, path |-> PathOf(r),
   hasEp |-> IF Fragment(r) # <<>> THEN 1 ELSE 0, ep |-> Fragment(r)]

\* the domain in which the property speaks: well-formed tcp / zk URIs, and URIs
\* whose scheme is anything else
UriDomain(u) ==
  IF ~HasScheme(u) THEN TRUE
  ELSE IF Scheme(u) = Tcp THEN WellFormedServers(Authority(AfterScheme(u)))
  ELSE IF Scheme(u) = Zk THEN WellFormedServers(Authority(AfterScheme(u)))
  ELSE TRUE

\* ---------------------------------------------------------------- the machine
VARIABLE ifaces        \* interface id -> set of its method names (generated clients so far)
avars == <<ifaces, cvars>>

AInit == ifaces = <<>> /\ CInit


\* e = [i, names, sync, async]
IfaceCheck(e) ==
  LET names == ToSet(e.names) IN
  IF ~NoCollision(names) THEN "harness.asyncCollision"
  ELSE IF ~(PublicMethods(names) \subseteq ToSet(e.sync)) THEN "C20.exposes"
  ELSE IF ~({m \o AsyncSuffix : m \in PublicMethods(names)} \subseteq ToSet(e.async)) THEN "C20.exposes"
  ELSE "ok"

IfaceUpd(e) == /\ ifaces' = [j \in DOMAIN ifaces \cup {e.i} |-> IF j = e.i THEN ToSet(e.names) ELSE ifaces[j]]
               /\ UNCHANGED cvars

\* arguments travel as tokens: index of the object in the case's pool of argument objects
\* (identity, else equality), -1 for an object that is neither.
\* e = [i, n, in |-> [args, kw], rec |-> [got, m, args, kw], prog |-> [kind, tok], res |-> [kind, tok, same]]
\* kw lists are sorted by key on both sides: << [k |-> name, v |-> token] >>
FwdCheck(e) ==
  IF e.i \notin DOMAIN ifaces THEN "harness.knownIface"
  ELSE LET tg == Target(ifaces[e.i], e.n) IN
  IF ~tg.ok THEN "harness.knownAttribute"
  ELSE IF e.rec.got # 1 THEN (IF tg.m \in PublicMethods(ifaces[e.i]) THEN "C20.exposes" ELSE "ok")
  ELSE IF e.rec.m # tg.m \/ e.rec.args # e.in.args \/ e.rec.kw # e.in.kw THEN "C20.forward"
  ELSE IF tg.form = "sync"
    THEN IF e.res.kind = e.prog.kind /\ e.res.tok = e.prog.tok THEN "ok" ELSE "C20.syncResult"
  ELSE \* async: the caller holds the call's result object ("pending", or "completed" when the call
       \* finished before the dispatcher returned; the dispatcher's own object where that is
       \* observable: same = 1; -1 = not observable), which yields the call's outcome
       IF e.res.kind \in {"pending", "completed"} /\ e.res.same # 0
          /\ e.res.fkind = e.prog.kind /\ e.res.tok = e.prog.tok
       THEN "ok" ELSE "C20.asyncResult"

\* Host names are not case sensitive: endpoints are compared with their host names folded to lower case.
\* ZooKeeper paths and endpoint names are case sensitive: compared as given.
LowerCp(c) == IF c >= 65 /\ c <= 90 THEN c + 32 ELSE c
LowerEp(x) == [h |-> [i \in DOMAIN x.h |-> LowerCp(x.h[i])], p |-> x.p]
LowerEps(s) == [i \in DOMAIN s |-> LowerEp(s[i])]

\* e = [uri, res |-> [kind, eps, hosts, path, hasEp, ep]]
\* kind: "static" | "zk" | "rejected" | "other"; hasEp/ep/path: -1 / <<>> when not observable
UriCheck(e) ==
  LET u == e.uri IN
  IF ~UriDomain(u) THEN "harness.uriDomain"
  ELSE IF HasScheme(u) /\ Scheme(u) = Tcp THEN
    IF e.res.kind = "static" /\ LowerEps(e.res.eps) = LowerEps(ParseTcp(AfterScheme(u))) THEN "ok" ELSE "C20.tcpEndpoints"
  ELSE IF HasScheme(u) /\ Scheme(u) = Zk THEN
    LET z == ParseZk(AfterScheme(u)) IN
    IF /\ e.res.kind = "zk"
       /\ (e.res.hostsSeen = 0 \/ {LowerEp(x) : x \in ToSet(e.res.hosts)} = {LowerEp(x) : x \in z.hosts})
       /\ (e.res.pathSeen = 0 \/ e.res.path = z.path)
       /\ e.res.hasEp = z.hasEp /\ (z.hasEp = 0 \/ e.res.ep = z.ep)
    THEN "ok" ELSE "C20.zkProvider"
  ELSE IF e.res.kind = "rejected" THEN "ok" ELSE "C20.rejectsOther"

NoUpd == UNCHANGED avars

\* ---------------------------------------------------------------- end to end
\* e = [i, names, built]: a client was built for interface i.  built = 0: the builder (Build(), or
\* CreateServiceClient + DispatcherOpen) raised, or had not handed out a client although the loop was
\* quiescent (and the sink's open result completed, unless it was told not to wait for it): there is no
\* generated client that exposes anything.  Which attributes exist is judged by Iface / Fwd.
ClientCheck(e) ==
  IF ~NoCollision(ToSet(e.names)) THEN "harness.asyncCollision"
  ELSE IF e.built # 1 THEN "C20.built"
  ELSE "ok"
ClientUpd(e) == IfaceUpd(e)
\* DispatcherOpen() was called again on the client (scenario marker; says nothing by itself)
ReopenCheck(e) == "ok"

\* what was handed over, as one value: method name, positional arguments (tokens), keyword
\* arguments (sorted by key, << [k |-> name, v |-> token] >>)
Payload(m, args, kw) == [m |-> m, args |-> args, kw |-> kw]

\* e = [i, cid, n, in |-> [args, kw]]
ECallCheck(e) ==
  IF e.i \notin DOMAIN ifaces THEN "harness.knownIface"
  ELSE LET tg == Target(ifaces[e.i], e.n) IN
  IF ~tg.ok THEN "harness.knownAttribute"
  ELSE CallCheck(e.cid, tg.form, tg.m \in PublicMethods(ifaces[e.i]), Payload(tg.m, e.in.args, e.in.kw))
ECallUpd(e) ==
  LET tg == Target(ifaces[e.i], e.n) IN
  /\ CallUpd(e.cid, tg.form, tg.m \in PublicMethods(ifaces[e.i]), Payload(tg.m, e.in.args, e.in.kw))
  /\ UNCHANGED ifaces

\* e = [seq, rec |-> [m, args, kw]]
ERecvCheck(e) == RecvCheck(e.seq, Payload(e.rec.m, e.rec.args, e.rec.kw))
ERecvUpd(e) == RecvUpd(e.seq, Payload(e.rec.m, e.rec.args, e.rec.kw)) /\ UNCHANGED ifaces
EReplyCheck(e) == ReplyCheck(e.seq, e.kind, e.tok)
EReplyUpd(e) == ReplyUpd(e.seq, e.kind, e.tok) /\ UNCHANGED ifaces
ERetCheck(e) == RetCheck(e.cid, e.kind)
ERetUpd(e) == RetUpd(e.cid, e.kind) /\ UNCHANGED ifaces
EResultCheck(e) == ResultCheck(e.cid, e.kind, e.tok)
EResultUpd(e) == ResultUpd(e.cid, e.kind, e.tok) /\ UNCHANGED ifaces
EEndCheck(e) == EndCheck(e.opened)
EEndUpd(e) == EndUpd(e.opened) /\ UNCHANGED ifaces
=============================================================================
