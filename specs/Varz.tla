------------------------------- MODULE Varz -------------------------------
(***************************************************************************)
(* Code-shaped model of scales/varz.py: Source, VarzReceiver (VARZ_DATA),   *)
(* _SampleSet and VarzAggregator.Aggregate (C18).                           *)
(*                                                                         *)
(* VARZ_DATA is a defaultdict of defaultdicts keyed by *Source objects*.    *)
(* Python dict semantics: two keys are the same key iff they are the same  *)
(* object, or their hashes are equal and __eq__ says so.  Source.__hash__   *)
(* hashes the 4-tuple; what __eq__ does is the constant SourceEq:          *)
(*   FALSE  the class defines only the Python-2 __cmp__, so on Python 3     *)
(*          equality is object identity (the tree as it was found);        *)
(*   TRUE   __eq__ compares the 4-tuples (fixes/C18-source-eq.diff).        *)
(* An object is [t |-> tuple, id |-> n]; id 0 is the one long-lived object  *)
(* a caller keeps for tuple t ("same object"), ids >= 1 are objects built   *)
(* for one recording and dropped ("fresh equal object", what the           *)
(* dispatcher does for every reply).                                       *)
(*                                                                         *)
(* Actions = code segments between yields:                                 *)
(*   DoInc / DoSet / DoSample  one VarzReceiver.IncrementVarz / SetVarz /   *)
(*        RecordPercentileSample call (no yield inside); `keep` is the     *)
(*        outcome of `random.random() < p` once the reservoir is full      *)
(*   AggBegin   Aggregate from its start to the first gevent.sleep(0)      *)
(*   AggStep    from one sleep(0) to the next: all sources of one metric   *)
(*        are read and its aggregates computed; then the dict iterator of  *)
(*        `for metric in varz.keys()` advances -- and raises RuntimeError  *)
(*        if a metric was first recorded while the aggregator slept (quirk *)
(*        kept as it is; outside C18, nothing is reported then)            *)
(* MAX_AGG_AGE (5 minutes) is not modelled: all samples are recent.        *)
(* The property-level machine VarzAbs runs in lock-step on ghost variables; *)
(* `viols` collects every C18 clause an aggregate entry breaks.            *)
(***************************************************************************)
EXTENDS VarzAbs

CONSTANTS Kinds,       \* sequence of metric kinds (metric id = position)
          Tuples,      \* source tuples in play
          Amts,        \* increments
          GVals,       \* gauge values
          SVals,       \* samples
          Cap,         \* VarzReceiver._MAX_PERCENTILE_SIZE
          MaxOps,      \* length of the update sequence
          Sels,        \* key selectors passed to Aggregate
          SourceEq,    \* does Source define __eq__ consistently with __hash__
          Interleave   \* may updates land while the aggregator sleeps

VARIABLES mkeys,   \* keys of VARZ_DATA in insertion order (sequence of metric ids)
          vdata,   \* metric id -> set of dict entries [k |-> object, v |-> value]
          nops,    \* updates so far
          agg,     \* the Aggregate greenlet: [on, sel, pos, n0, out]
          ret,     \* what the last Aggregate call returned (history only)
          viols    \* ghost: C18 clauses broken so far

ivars == <<mkeys, vdata, nops, agg, ret>>
vars == <<ivars, avars, viols>>
View == <<mkeys, vdata, nops, agg, avars, viols>>

M == DOMAIN Kinds
Scale == 1000
Zero == [n |-> 0, data |-> <<>>, i |-> 0]      \* int 0 / a new _SampleSet
AggOff == [on |-> FALSE, sel |-> "none", pos |-> 0, n0 |-> 0, out |-> <<>>]
RangeOf(s) == {s[i] : i \in DOMAIN s}

\* ---- dict keyed by Source objects ----------------------------------------------
KeyEq(a, b) == a = b \/ (SourceEq /\ a.t = b.t)      \* hash(a) = hash(b) is implied in both cases
Find(m, o) == {e \in vdata[m] : KeyEq(e.k, o)}
IdsOf(m, t) == {e.k.id : e \in {x \in vdata[m] : x.k.t = t}}
Obj(m, t, fresh) == [t |-> t, id |-> IF fresh THEN Max(IdsOf(m, t) \cup {0}) + 1 ELSE 0]

\* d[o] = F(d[o]) on a defaultdict: a missing key is first inserted with the default;
\* an existing equal key keeps its original key object.
Store(m, o, F(_)) ==
  LET hit == Find(m, o) IN
  IF hit = {} THEN vdata[m] \cup {[k |-> o, v |-> F(Zero)]}
  ELSE LET e == CHOOSE x \in hit : TRUE IN (vdata[m] \ {e}) \cup {[k |-> e.k, v |-> F(e.v)]}

Touch(m) == mkeys' = IF m \in RangeOf(mkeys) THEN mkeys ELSE Append(mkeys, m)
CanUpdate == nops < MaxOps /\ (Interleave \/ ~agg.on)

\* _SampleSet.Sample: a deque(maxlen = Cap)
SampleInto(r, v, keep) ==
  IF r.i < Cap THEN [r EXCEPT !.data = Append(@, v), !.i = @ + 1]
  ELSE IF keep THEN [r EXCEPT !.data = Append(IF Len(@) >= Cap THEN Tail(@) ELSE @, v), !.i = @ + 1]
  ELSE [r EXCEPT !.i = @ + 1]

DoInc(m, t, fresh, amt) ==
  /\ CanUpdate /\ Kinds[m] \in IncKinds
  /\ vdata' = [vdata EXCEPT ![m] = Store(m, Obj(m, t, fresh), LAMBDA v : [v EXCEPT !.n = @ + amt])]
  /\ Touch(m) /\ nops' = nops + 1
  /\ IncUpd(m, t, amt)
  /\ UNCHANGED <<agg, ret, viols>>

DoSet(m, t, fresh, val) ==
  /\ CanUpdate /\ Kinds[m] = "gauge"
  /\ vdata' = [vdata EXCEPT ![m] = Store(m, Obj(m, t, fresh), LAMBDA v : [v EXCEPT !.n = val])]
  /\ Touch(m) /\ nops' = nops + 1
  /\ SetUpd(m, t, val)
  /\ UNCHANGED <<agg, ret, viols>>

DoSample(m, t, fresh, val, keep) ==
  /\ CanUpdate /\ Kinds[m] \in PctKinds
  /\ LET o == Obj(m, t, fresh)
         full == \E e \in Find(m, o) : e.v.i >= Cap
     IN /\ (~keep => full)         \* random.random() is only consulted on a full reservoir
        /\ vdata' = [vdata EXCEPT ![m] = Store(m, o, LAMBDA v : SampleInto(v, val, keep))]
  /\ Touch(m) /\ nops' = nops + 1
  /\ SampleUpd(m, t, val)
  /\ UNCHANGED <<agg, ret, viols>>

\* ---- VarzAggregator ----------------------------------------------------------------
Pcts == <<5000, 9000, 9900, 9990, 9999>>       \* VARZ_PERCENTILES in 1/10000

\* _Downsample(lst, target); `i % (len/target) == 0` is (i * target) % len = 0
Down(lst, target) ==
  LET n == Len(lst) IN
  IF target = 0 THEN <<>>
  ELSE IF n < 3 \/ n <= target THEN lst
  ELSE LET s == SortSeq(lst, <)
           idx == SelectSeq([i \in 1..(n - 2) |-> i - 1], LAMBDA i : (i * target) % n = 0)
       IN [j \in 1..Len(idx) |-> s[idx[j] + 1]] \o <<s[n]>>

\* CalculatePercentile(values, pct) in 1/10000 units
Pct(values, P) ==
  IF values = <<>> THEN 0
  ELSE LET K == (Len(values) - 1) * P
           f == K \div 10000
           r == K % 10000
       IN IF r = 0 THEN values[f + 1] * 10000
          ELSE values[f + 1] * (10000 - r) + values[f + 2] * r
Round1000(x) == (x + 5) \div 10                   \* 1/10000 units -> 1/1000, monotone

Ents(m, sel, key) == {e \in vdata[m] : KeyOf(sel, e.k.t) = key}
KeysOf(m, sel) == {KeyOf(sel, e.k.t) : e \in vdata[m]}

AggEntry(m, sel, key) ==
  LET E == Ents(m, sel, key)
      cnt == Cardinality(E)
  IN IF Kinds[m] \in PctKinds
     THEN LET vals == SortSeq(FoldSet(LAMBDA e, acc : acc \o Down(e.v.data, Len(e.v.data) \div cnt), <<>>, E), <)
              kept == UNION {RangeOf(e.v.data) : e \in E}
          IN [key |-> key, total |-> 0, cnt |-> cnt,
              pcts |-> [i \in 1..5 |-> Round1000(Pct(vals, Pcts[i]))],
              lo |-> IF kept = {} THEN -1 ELSE Min(kept), hi |-> IF kept = {} THEN -1 ELSE Max(kept)]
     ELSE [key |-> key, total |-> Scale * FoldSet(LAMBDA e, acc : acc + e.v.n, 0, E), cnt |-> cnt,
           pcts |-> <<>>, lo |-> -1, hi |-> -1]

AggOf(m, sel) == {AggEntry(m, sel, key) : key \in KeysOf(m, sel)}

Broken(m, sel, res) ==
  UNION {AggFail(m, sel, r.key, r.total, Cardinality(vdata[m]), r.cnt, r.pcts, r.lo, r.hi) : r \in res}
    \cup AggDoneFail(m, sel, Cardinality(res))

AggBegin(sel) ==
  /\ ~agg.on
  /\ IF mkeys = <<>>
     THEN /\ ret' = [ok |-> TRUE, sel |-> sel, out |-> <<>>]
          /\ UNCHANGED agg
     ELSE /\ agg' = [on |-> TRUE, sel |-> sel, pos |-> 1, n0 |-> Len(mkeys), out |-> <<>>]
          /\ UNCHANGED ret
  /\ UNCHANGED <<mkeys, vdata, nops, avars, viols>>

\* one metric is aggregated; then the iterator advances
AggWork == LET m == mkeys[agg.pos] IN [m |-> m, res |-> AggOf(m, agg.sel)]

AggStepNext ==
  /\ agg.on /\ Len(mkeys) = agg.n0 /\ agg.pos < agg.n0
  /\ agg' = [agg EXCEPT !.pos = @ + 1, !.out = Append(@, AggWork)]
  /\ viols' = viols \cup Broken(AggWork.m, agg.sel, AggWork.res)
  /\ UNCHANGED <<mkeys, vdata, nops, ret, avars>>

AggStepDone ==
  /\ agg.on /\ Len(mkeys) = agg.n0 /\ agg.pos = agg.n0
  /\ agg' = AggOff
  /\ ret' = [ok |-> TRUE, sel |-> agg.sel, out |-> Append(agg.out, AggWork)]
  /\ viols' = viols \cup Broken(AggWork.m, agg.sel, AggWork.res)
  /\ UNCHANGED <<mkeys, vdata, nops, avars>>

AggStepAbort ==   \* RuntimeError: dictionary changed size during iteration
  /\ agg.on /\ Len(mkeys) # agg.n0
  /\ agg' = AggOff
  /\ ret' = [ok |-> FALSE, sel |-> agg.sel, out |-> <<>>]
  /\ viols' = viols \cup Broken(AggWork.m, agg.sel, AggWork.res)
  /\ UNCHANGED <<mkeys, vdata, nops, avars>>

Init ==
  /\ mkeys = <<>>
  /\ vdata = [m \in M |-> {}]
  /\ nops = 0
  /\ agg = AggOff
  /\ ret = [ok |-> TRUE, sel |-> "none", out |-> <<>>]
  /\ viols = {}
  /\ AInit(Kinds, Scale)

Next ==
  \/ \E m \in M, t \in Tuples, fresh \in BOOLEAN :
       \/ \E a \in Amts : DoInc(m, t, fresh, a)
       \/ \E v \in GVals : DoSet(m, t, fresh, v)
       \/ \E v \in SVals, keep \in BOOLEAN : DoSample(m, t, fresh, v, keep)
  \/ \E sel \in Sels : AggBegin(sel)
  \/ AggStepNext \/ AggStepDone \/ AggStepAbort

Spec == Init /\ [][Next]_vars

\* ---- what TLC checks ------------------------------------------------------------------
NoViolation == viols = {}
NoSeriesViolation == "C18.oneSeries" \notin viols
NoGaugeViolation == "C18.gauge" \notin viols
NoPctViolation == "C18.percentileBounds" \notin viols
NoSumViolation == "C18.sum" \notin viols

Structural ==
  /\ \A m \in M : \A e1, e2 \in vdata[m] : e1 # e2 => ~KeyEq(e1.k, e2.k)          \* a dict
  /\ RangeOf(mkeys) = {m \in M : vdata[m] # {}} /\ Len(mkeys) = Cardinality(RangeOf(mkeys))
  /\ \A m \in M : \A e \in vdata[m] : Len(e.v.data) <= Cap /\ Len(e.v.data) <= e.v.i
  /\ \A m \in M : {e.k.t : e \in vdata[m]} = DOMAIN adata[m]                      \* nothing lost
  /\ agg.on => agg.pos \in 1..agg.n0 /\ agg.n0 <= Len(mkeys)

\* ---- constant values for the configurations (cfg files cannot write tuples) -------------
K_cg == <<"counter", "gauge">>
K_ct == <<"rate", "timer">>
K_gt == <<"gauge", "avgrate">>
K_cgt == <<"counter", "gauge", "timer">>
T2 == {<<1, 1, 1, 0>>, <<1, 1, 2, 0>>}
T3 == {<<1, 1, 1, 0>>, <<1, 1, 2, 0>>, <<0, 2, 0, 1>>}
T4 == T3 \cup {<<2, 1, 0, 0>>}

\* the sentence of C18 about memory: series bounded by distinct sources
Bounded == \A m \in M : Cardinality(vdata[m]) <= Cardinality(Tuples)
=============================================================================
