------------------------------- MODULE Varz -------------------------------
(***************************************************************************)
(* Code-shaped model of scales/varz.py: Source, VarzReceiver (VARZ_DATA),   *)
(* _SampleSet and VarzAggregator.Aggregate (C18).                           *)
(*                                                                         *)
(* VARZ_DATA is a defaultdict of defaultdicts keyed by *Source objects*.    *)
(* Python dict semantics: two keys are the same key iff they are the same  *)
(* object, or their hashes are equal and __eq__ says so.  Source.__hash__   *)
(* hashes the 4-tuple; what __eq__ does is the constant SourceEq:          *)
(*   FALSE  the class defines only the Python-2 __cmp__, so on Python 3     *)
(*          equality is object identity (the tree as it was found);        *)
(*   TRUE   __eq__ compares the 4-tuples (fixes/C18-source-eq.diff).        *)
(* An object is [t |-> tuple, id |-> n]; id 0 is the one long-lived object  *)
(* a caller keeps for tuple t ("same object"), ids >= 1 are objects built   *)
(* for one recording and dropped ("fresh equal object", what the           *)
(* dispatcher does for every reply).                                       *)
(*                                                                         *)
(* Actions = code segments between yields:                                 *)
(*   DoInc / DoSet / DoSample  one VarzReceiver.IncrementVarz / SetVarz /   *)
(*        RecordPercentileSample call (no yield inside); `keep` is the     *)
(*        outcome of `random.random() < p` once the reservoir is full      *)
(*   AggBegin   Aggregate from its start to the first gevent.sleep(0)      *)
(*   AggStep    from one sleep(0) to the next: all sources of one metric   *)
(*        are read and its aggregates computed; then the dict iterator of  *)
(*        `for metric in varz.keys()` advances -- and raises RuntimeError  *)
(*        if a metric was first recorded while the aggregator slept (quirk *)
(*        kept as it is; outside C18, nothing is reported then)            *)
(*   ClockTick(d)  the low-resolution clock (LOW_RESOLUTION_TIME_SOURCE.now) *)
(*        advances by d units; one unit stands for MAX_AGG_AGE / MaxAge     *)
(*        seconds.  A _SampleSet stamps last_update = now when it *accepts*  *)
(*        a sample (and at creation); Aggregate reads `now` once at its      *)
(*        start and leaves out every reservoir with now - last_update >=     *)
(*        MAX_AGG_AGE: it is not counted (count, pct_sample) and gives no    *)
(*        values; a key with no live reservoir reports zeros with count 0.   *)
(*        The clock does not tick while Aggregate sleeps (sleep(0) takes no  *)
(*        time in the harness).                                             *)
(* Design = "tree"    the code as it is: every recording looks its series    *)
(*                    up in VARZ_DATA; stale reservoirs stay in the dict.    *)
(*          "expire"  variant: Aggregate also deletes the stale reservoirs   *)
(*                    (the next sample creates a new one) -- C18 holds.      *)
(*          "orphan"  variant: as "expire", and the long-lived bound holder  *)
(*                    of a source (object id 0) looks its reservoir up once  *)
(*                    and samples straight into it afterwards: after an      *)
(*                    expiry it keeps sampling into a reservoir VARZ_DATA no *)
(*                    longer shows (counterexample generator, C18.oneSeries) *)
(*          "falsy"   variant: the adapter behind the class-level form       *)
(*                    metric(source[, amount]) takes a falsy amount for "no   *)
(*                    amount given": a recording of exactly 0 through a fresh *)
(*                    Source (what class-level callers pass) stores 1         *)
(*                    (counterexample generator: sum, gauge, percentiles)     *)
(*          "shared"  variant: Varz holders get their bound metrics from one *)
(*                    dictionary keyed (attribute name, source) that all Varz *)
(*                    classes share; here every metric id is a Varz class of  *)
(*                    its own with the one attribute name they all share, so  *)
(*                    the holder (object 0) of the class built second for a   *)
(*                    source records into the series of the class built first *)
(*                    (counterexample generator; counters and gauges only)    *)
(* The property-level machine VarzAbs runs in lock-step on ghost variables; *)
(* `viols` collects every C18 clause an aggregate entry breaks.            *)
(***************************************************************************)
EXTENDS VarzAbs

CONSTANTS Kinds,       \* sequence of metric kinds (metric id = position)
          Tuples,      \* source tuples in play
          Amts,        \* increments
          GVals,       \* gauge values
          SVals,       \* samples
          Cap,         \* VarzReceiver._MAX_PERCENTILE_SIZE
          MaxOps,      \* length of the update sequence
          Sels,        \* key selectors passed to Aggregate
          SourceEq,    \* does Source define __eq__ consistently with __hash__
          Interleave,  \* may updates land while the aggregator sleeps
          MaxAge,      \* VarzAggregator.MAX_AGG_AGE in clock units
          MaxNow,      \* the clock stops at MaxNow (0: time stands still)
          Ticks,       \* clock steps
          Design       \* "tree" | "expire" | "orphan" | "falsy" | "shared"

VARIABLES mkeys,   \* keys of VARZ_DATA in insertion order (sequence of metric ids)
          vdata,   \* metric id -> set of dict entries [k |-> object, v |-> value]
          nops,    \* updates so far
          agg,     \* the Aggregate greenlet: [on, sel, pos, n0, now0, out]
          ret,     \* what the last Aggregate call returned (history only)
          now,     \* LOW_RESOLUTION_TIME_SOURCE.now
          held,    \* "orphan" design: metric -> tuple -> what the bound holder of object 0 remembers
          viols    \* ghost: C18 clauses broken so far

ivars == <<mkeys, vdata, nops, agg, ret, now, held>>
vars == <<ivars, avars, viols>>
View == <<mkeys, vdata, nops, agg, now, held, avars, viols>>

ASSUME Design \in {"tree", "expire", "orphan", "falsy", "shared"} /\ (Design # "tree" => SourceEq)
ASSUME Design = "shared" => \A m \in DOMAIN Kinds : Kinds[m] = Kinds[1] /\ Kinds[m] \in {"counter", "rate", "gauge"}

M == DOMAIN Kinds
Scale == 1000
Zero == [n |-> 0, data |-> <<>>, i |-> 0, lu |-> 0]      \* int 0 / a new _SampleSet (stamped by its first sample)
AggOff == [on |-> FALSE, sel |-> "none", pos |-> 0, n0 |-> 0, now0 |-> 0, out |-> <<>>]
NoHold == [has |-> FALSE, live |-> FALSE, r |-> Zero, to |-> 0]   \* has: looked up; live: its reservoir is the one in
                                                                  \* VARZ_DATA; to ("shared"): whose bound metric it got
RangeOf(s) == {s[i] : i \in DOMAIN s}

\* ---- dict keyed by Source objects ----------------------------------------------
KeyEq(a, b) == a = b \/ (SourceEq /\ a.t = b.t)      \* hash(a) = hash(b) is implied in both cases
Find(m, o) == {e \in vdata[m] : KeyEq(e.k, o)}
IdsOf(m, t) == {e.k.id : e \in {x \in vdata[m] : x.k.t = t}}
Obj(m, t, fresh) == [t |-> t, id |-> IF fresh THEN Max(IdsOf(m, t) \cup {0}) + 1 ELSE 0]

\* d[o] = F(d[o]) on a defaultdict: a missing key is first inserted with the default;
\* an existing equal key keeps its original key object.
Store(m, o, F(_)) ==
  LET hit == Find(m, o) IN
  IF hit = {} THEN vdata[m] \cup {[k |-> o, v |-> F(Zero)]}
  ELSE LET e == CHOOSE x \in hit : TRUE IN (vdata[m] \ {e}) \cup {[k |-> e.k, v |-> F(e.v)]}

Touch(m) == mkeys' = IF m \in RangeOf(mkeys) THEN mkeys ELSE Append(mkeys, m)
CanUpdate == nops < MaxOps /\ (Interleave \/ ~agg.on)

\* _SampleSet.Sample: a deque(maxlen = Cap); an accepted sample stamps last_update
SampleInto(r, v, keep) ==
  IF r.i < Cap THEN [r EXCEPT !.data = Append(@, v), !.i = @ + 1, !.lu = now]
  ELSE IF keep THEN [r EXCEPT !.data = Append(IF Len(@) >= Cap THEN Tail(@) ELSE @, v), !.i = @ + 1, !.lu = now]
  ELSE [r EXCEPT !.i = @ + 1]

\* "falsy": what the receiver is given for a value recorded through the class-level form
Eff(v, fresh) == IF Design = "falsy" /\ fresh /\ v = 0 THEN 1 ELSE v

\* "shared": the metric whose bound object the holder of (class m, tuple t) got, i.e. where its recordings go
FirstFor(t) == {m2 \in M : held[m2][t].has /\ held[m2][t].to = m2}
Target(m, t, fresh) ==
  IF Design # "shared" \/ fresh THEN m
  ELSE IF held[m][t].has THEN held[m][t].to
  ELSE IF FirstFor(t) # {} THEN CHOOSE m2 \in FirstFor(t) : TRUE
  ELSE m
HeldAfter(m, t, fresh) ==
  IF Design = "shared" /\ ~fresh THEN [held EXCEPT ![m][t] = [@ EXCEPT !.has = TRUE, !.to = Target(m, t, fresh)]]
  ELSE held

DoInc(m, t, fresh, amt) ==
  /\ CanUpdate /\ Kinds[m] \in IncKinds
  /\ LET mm == Target(m, t, fresh) IN
       /\ vdata' = [vdata EXCEPT ![mm] = Store(mm, Obj(mm, t, fresh), LAMBDA v : [v EXCEPT !.n = @ + Eff(amt, fresh)])]
       /\ Touch(mm)
  /\ held' = HeldAfter(m, t, fresh)
  /\ nops' = nops + 1
  /\ IncUpd(m, t, amt)
  /\ UNCHANGED <<agg, ret, now, viols>>

DoSet(m, t, fresh, val) ==
  /\ CanUpdate /\ Kinds[m] = "gauge"
  /\ LET mm == Target(m, t, fresh) IN
       /\ vdata' = [vdata EXCEPT ![mm] = Store(mm, Obj(mm, t, fresh), LAMBDA v : [v EXCEPT !.n = Eff(val, fresh)])]
       /\ Touch(mm)
  /\ held' = HeldAfter(m, t, fresh)
  /\ nops' = nops + 1
  /\ SetUpd(m, t, val)
  /\ UNCHANGED <<agg, ret, now, viols>>

\* RecordPercentileSample, or (design "orphan", the holder of object 0) VarzMetric._Sample.  room / took are
\* what the harness observes of VARZ_DATA before and after the call (see VarzAbs.Sample).
DoSample(m, t, fresh, val, keep) ==
  /\ CanUpdate /\ Kinds[m] \in PctKinds
  /\ LET o == Obj(m, t, fresh)
         pre == Find(m, o)
         bound == Design = "orphan" /\ ~fresh
         orphaned == bound /\ held[m][t].has /\ ~held[m][t].live
         target == IF orphaned THEN held[m][t].r
                   ELSE IF pre = {} THEN Zero ELSE (CHOOSE e \in pre : TRUE).v
         vd == IF orphaned THEN vdata[m] ELSE Store(m, o, LAMBDA v : SampleInto(v, Eff(val, fresh), keep))
         post == {e \in vd : KeyEq(e.k, o)}
         room == IF pre = {} \/ (\E e \in pre : Len(e.v.data) < Cap) THEN 1 ELSE 0
         took == IF post # {} /\ post # pre THEN 1 ELSE 0
         chk == SampleCheck(m, t, val, room, took)
     IN /\ (~keep => target.i >= Cap)         \* random.random() is only consulted on a full reservoir
        /\ vdata' = [vdata EXCEPT ![m] = vd]
        /\ held' = IF ~bound THEN held
                   ELSE IF orphaned THEN [held EXCEPT ![m][t].r = SampleInto(target, val, keep)]
                   ELSE [held EXCEPT ![m][t] = [has |-> TRUE, live |-> TRUE, r |-> Zero, to |-> m]]
        /\ viols' = viols \cup (IF chk = "ok" THEN {} ELSE {chk})
  /\ Touch(m) /\ nops' = nops + 1
  /\ SampleUpd(m, t, val)
  /\ UNCHANGED <<agg, ret, now>>

ClockTick(d) ==
  /\ ~agg.on /\ now + d <= MaxNow
  /\ now' = now + d
  /\ UNCHANGED <<mkeys, vdata, nops, agg, ret, held, avars, viols>>

\* ---- VarzAggregator ----------------------------------------------------------------
Pcts == <<5000, 9000, 9900, 9990, 9999>>       \* VARZ_PERCENTILES in 1/10000

\* _Downsample(lst, target); `i % (len/target) == 0` is (i * target) % len = 0
Down(lst, target) ==
  LET n == Len(lst) IN
  IF target = 0 THEN <<>>
  ELSE IF n < 3 \/ n <= target THEN lst
  ELSE LET s == SortSeq(lst, <)
           idx == SelectSeq([i \in 1..(n - 2) |-> i - 1], LAMBDA i : (i * target) % n = 0)
       IN [j \in 1..Len(idx) |-> s[idx[j] + 1]] \o <<s[n]>>

\* CalculatePercentile(values, pct) in 1/10000 units
Pct(values, P) ==
  IF values = <<>> THEN 0
  ELSE LET K == (Len(values) - 1) * P
           f == K \div 10000
           r == K % 10000
       IN IF r = 0 THEN values[f + 1] * 10000
          ELSE values[f + 1] * (10000 - r) + values[f + 2] * r
Round1000(x) == (x + 5) \div 10                   \* 1/10000 units -> 1/1000, monotone

Ents(m, sel, key) == {e \in vdata[m] : KeyOf(sel, e.k.t) = key}
KeysOf(m, sel) == {KeyOf(sel, e.k.t) : e \in vdata[m]}

Stale(m, e) == Kinds[m] \in PctKinds /\ agg.now0 - e.v.lu >= MaxAge

AggEntry(m, sel, key) ==
  LET E == Ents(m, sel, key)
      L == {e \in E : ~Stale(m, e)}          \* reservoirs younger than MAX_AGG_AGE
      cnt == Cardinality(L)
  IN IF Kinds[m] \in PctKinds
     THEN LET vals == SortSeq(FoldSet(LAMBDA e, acc : acc \o Down(e.v.data, Len(e.v.data) \div cnt), <<>>, L), <)
              kept == UNION {RangeOf(e.v.data) : e \in E}   \* what VARZ_DATA retains for the key (as the harness reads it)
          IN [key |-> key, total |-> 0, cnt |-> cnt,
              pcts |-> [i \in 1..5 |-> Round1000(Pct(vals, Pcts[i]))],
              lo |-> IF kept = {} THEN -1 ELSE Min(kept), hi |-> IF kept = {} THEN -1 ELSE Max(kept)]
     ELSE [key |-> key, total |-> Scale * FoldSet(LAMBDA e, acc : acc + e.v.n, 0, E), cnt |-> cnt,
           pcts |-> <<>>, lo |-> -1, hi |-> -1]

AggOf(m, sel) == {AggEntry(m, sel, key) : key \in KeysOf(m, sel)}

Broken(m, sel, res) ==
  UNION {AggFail(m, sel, r.key, r.total, Cardinality(vdata[m]), r.cnt, r.pcts, r.lo, r.hi) : r \in res}
    \cup AggDoneFail(m, sel, Cardinality(res))

AggBegin(sel) ==
  /\ ~agg.on
  /\ IF mkeys = <<>>
     THEN /\ ret' = [ok |-> TRUE, sel |-> sel, out |-> <<>>]
          /\ UNCHANGED agg
     ELSE /\ agg' = [on |-> TRUE, sel |-> sel, pos |-> 1, n0 |-> Len(mkeys), now0 |-> now, out |-> <<>>]
          /\ UNCHANGED ret
  /\ UNCHANGED <<mkeys, vdata, nops, now, held, avars, viols>>

\* one metric is aggregated; then the iterator advances
AggWork == LET m == mkeys[agg.pos] IN [m |-> m, res |-> AggOf(m, agg.sel)]

\* designs "expire" / "orphan": the stale reservoirs of the metric just aggregated are deleted; a bound
\* holder that remembered one of them keeps it (and nothing tells it)
Expire ==
  LET m == mkeys[agg.pos]
      gone == IF Design = "tree" THEN {} ELSE {e \in vdata[m] : Stale(m, e)}
  IN /\ vdata' = [vdata EXCEPT ![m] = @ \ gone]
     /\ held' = [held EXCEPT ![m] = [t \in Tuples |->
                   IF @[t].has /\ @[t].live /\ \E e \in gone : e.k.t = t
                   THEN [has |-> TRUE, live |-> FALSE, r |-> (CHOOSE e \in gone : e.k.t = t).v, to |-> m]
                   ELSE @[t]]]

AggStepNext ==
  /\ agg.on /\ Len(mkeys) = agg.n0 /\ agg.pos < agg.n0
  /\ agg' = [agg EXCEPT !.pos = @ + 1, !.out = Append(@, AggWork)]
  /\ viols' = viols \cup Broken(AggWork.m, agg.sel, AggWork.res)
  /\ Expire
  /\ UNCHANGED <<mkeys, nops, ret, now, avars>>

AggStepDone ==
  /\ agg.on /\ Len(mkeys) = agg.n0 /\ agg.pos = agg.n0
  /\ agg' = AggOff
  /\ ret' = [ok |-> TRUE, sel |-> agg.sel, out |-> Append(agg.out, AggWork)]
  /\ viols' = viols \cup Broken(AggWork.m, agg.sel, AggWork.res)
  /\ Expire
  /\ UNCHANGED <<mkeys, nops, now, avars>>

AggStepAbort ==   \* RuntimeError: dictionary changed size during iteration
  /\ agg.on /\ Len(mkeys) # agg.n0
  /\ agg' = AggOff
  /\ ret' = [ok |-> FALSE, sel |-> agg.sel, out |-> <<>>]
  /\ viols' = viols \cup Broken(AggWork.m, agg.sel, AggWork.res)
  /\ Expire
  /\ UNCHANGED <<mkeys, nops, now, avars>>

Init ==
  /\ mkeys = <<>>
  /\ vdata = [m \in M |-> {}]
  /\ nops = 0
  /\ agg = AggOff
  /\ ret = [ok |-> TRUE, sel |-> "none", out |-> <<>>]
  /\ now = 0
  /\ held = [m \in M |-> [t \in Tuples |-> NoHold]]
  /\ viols = {}
  /\ AInit(Kinds, Scale)

Next ==
  \/ \E m \in M, t \in Tuples, fresh \in BOOLEAN :
       \/ \E a \in Amts : DoInc(m, t, fresh, a)
       \/ \E v \in GVals : DoSet(m, t, fresh, v)
       \/ \E v \in SVals, keep \in BOOLEAN : DoSample(m, t, fresh, v, keep)
  \/ \E sel \in Sels : AggBegin(sel)
  \/ \E d \in Ticks : ClockTick(d)
  \/ AggStepNext \/ AggStepDone \/ AggStepAbort

Spec == Init /\ [][Next]_vars

\* ---- what TLC checks ------------------------------------------------------------------
NoViolation == viols = {}
NoSeriesViolation == "C18.oneSeries" \notin viols
NoGaugeViolation == "C18.gauge" \notin viols
NoPctViolation == "C18.percentileBounds" \notin viols
NoSumViolation == "C18.sum" \notin viols

Structural ==
  /\ \A m \in M : \A e1, e2 \in vdata[m] : e1 # e2 => ~KeyEq(e1.k, e2.k)          \* a dict
  /\ Design = "tree" => RangeOf(mkeys) = {m \in M : vdata[m] # {}}
  /\ Len(mkeys) = Cardinality(RangeOf(mkeys))
  /\ \A m \in M : \A e \in vdata[m] : Len(e.v.data) <= Cap /\ Len(e.v.data) <= e.v.i
  /\ Design = "tree" => \A m \in M : {e.k.t : e \in vdata[m]} = DOMAIN adata[m]     \* nothing lost
  /\ \A m \in M : {e.k.t : e \in vdata[m]} \subseteq DOMAIN adata[m]
  /\ \A m \in M : \A e \in vdata[m] : e.v.lu <= now
  /\ agg.on => agg.pos \in 1..agg.n0 /\ agg.n0 <= Len(mkeys)

\* ---- constant values for the configurations (cfg files cannot write tuples) -------------
K_cg == <<"counter", "gauge">>
K_ct == <<"rate", "timer">>
K_gt == <<"gauge", "avgrate">>
K_cgt == <<"counter", "gauge", "timer">>
K_t == <<"timer">>
K_cc == <<"counter", "counter">>
K_gg == <<"gauge", "gauge">>
K_tc == <<"timer", "counter">>
T2 == {<<1, 1, 1, 0>>, <<1, 1, 2, 0>>}
T3 == {<<1, 1, 1, 0>>, <<1, 1, 2, 0>>, <<0, 2, 0, 1>>}
T4 == T3 \cup {<<2, 1, 0, 0>>}

\* the sentence of C18 about memory: series bounded by distinct sources
Bounded == \A m \in M : Cardinality(vdata[m]) <= Cardinality(Tuples)
=============================================================================
