SPECIFICATION Spec
CONSTANTS
  MaxNodes = 3
  Eps = {1,2,3}
  InitN = 3
  MaxLoad = 2
  P = 100
  Repaired = TRUE
  Faults = TRUE
  Membership = FALSE
  TrackLate = FALSE
  Noise = FALSE
  Aperture = TRUE
  MinSize = 2
  StaleSize = TRUE
  Light = FALSE
INVARIANT NoViolation
CHECK_DEADLOCK FALSE
