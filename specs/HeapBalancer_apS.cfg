SPECIFICATION Spec
CONSTANTS
  MaxNodes = 4
  Eps = {1,2,3,4}
  InitN = 4
  MaxLoad = 1
  P = 100
  Repaired = TRUE
  Faults = TRUE
  Membership = FALSE
  TrackLate = FALSE
  Noise = FALSE
  Aperture = TRUE
  MinSize = 2
  StaleSize = TRUE
  Light = FALSE
INVARIANT NoViolation
CHECK_DEADLOCK FALSE
