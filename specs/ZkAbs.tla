------------------------------- MODULE ZkAbs -------------------------------
(***************************************************************************)
(* C19 -- the ZooKeeper server set as its consumer sees it (property-level  *)
(* oracle).                                                                *)
(*                                                                         *)
(* Observable events:                                                      *)
(*   PCreate / PDelete          the watched path is created / deleted      *)
(*   ZCreate(m, d) / ZDelete(m) member node named m, carrying member data  *)
(*                              d, is created / deleted under it           *)
(*   Join(d) / Leave(d)         on_join / on_leave was called with a Member *)
(*                              VALUE equal to data d (the field m of the   *)
(*                              event, the node name, is informational)    *)
(*   Raised                     that callback raised                       *)
(*   Q(present)                 nothing is in flight any more: every watch *)
(*                              event was delivered and fully processed    *)
(*                              and no consumer callback is still running  *)
(*                              (a callback may block: until it returns    *)
(*                              the consumer cannot have applied what      *)
(*                              follows it, and nothing is owed to it);    *)
(*                              present = data of the nodes now present    *)
(*   Serve / Deliver / Other    progress markers, no meaning here          *)
(* Compact forms used by histories with big member sets (> 100 nodes); each *)
(* stands for exactly the sequence of single events it names:               *)
(*   ZCreateN(lo, hi)           ZCreate(m, m) for m = lo .. hi (the fields  *)
(*                              m, d of the event carry lo, hi; node m has  *)
(*                              data m)                                     *)
(*   ZDeleteN(lo, hi)           ZDelete(m) for m = lo .. hi                 *)
(*   Joins(ds) / Leaves(ds)     Join(ds[1]), Join(ds[2]), ... (callbacks    *)
(*                              that follow each other with nothing else    *)
(*                              observable in between, none of them raising)*)
(*                                                                         *)
(* Members are identified the way a consumer can identify them: by the     *)
(* Member value it is handed (Member.__eq__/__hash__ ignore the node name; *)
(* LoadBalancerSink keys its servers by endpoint, ignores a join for an    *)
(* endpoint it holds and drops the endpoint on a leave).  The consumer's    *)
(* view is therefore the SET of values obtained by applying joins and      *)
(* leaves in order, and "present" is the set of values of the nodes under  *)
(* the path.  Histories are restricted (harness.distinctValues) to those    *)
(* in which no two nodes present at the same time carry equal data: with   *)
(* two equal registrations alive at once "the members present" is          *)
(* ambiguous between nodes and values and the statement does not decide it; *)
(* successive registrations of one instance under different node names     *)
(* (delete + create with equal data) are in scope.                         *)
(*                                                                         *)
(* The abstract state is one record so that the code-shaped model can fold *)
(* several callbacks of one loop cascade through the same operators:       *)
(*   ACheck(a, e)  "ok" or the first failing clause, in the state before e *)
(*   AStep(a, e)   the unguarded update                                    *)
(* Clauses (exactly the statement of C19, nothing more):                   *)
(*   C19.alternate       a value joins while the consumer holds it (two    *)
(*                       joins without a leave in between) or leaves twice *)
(*                       without a join in between.  A leave for a value   *)
(*                       that never joined is not forbidden by the text.   *)
(*   C19.agree           at quiescence the joins and leaves applied in     *)
(*                       order leave exactly the values present under the  *)
(*                       path (none when the path does not exist).         *)
(*   C19.survivesErrors  the same disagreement when a callback raised and  *)
(*                       no notification at all was delivered after it:    *)
(*                       the error stopped the later notifications.        *)
(* harness.* clauses are sanity checks of the recorded history itself.     *)
(***************************************************************************)
EXTENDS Integers, Sequences, FiniteSets, TLC

VARIABLE ast
avars == <<ast>>

AInit0 == [parent |-> FALSE,   \* the watched path exists
           kids   |-> {},      \* member nodes under it: pairs <<node name, data>>
           view   |-> {},      \* joins/leaves applied in order = values whose last event is a join
           left   |-> {},      \* values whose last event is a leave
           raised |-> FALSE]   \* a callback raised and nothing was delivered since

AInit == ast = AInit0

ANames(a) == {p[1] : p \in a.kids}
AValues(a) == {p[2] : p \in a.kids}
APresent(a) == IF a.parent THEN AValues(a) ELSE {}

SeqToSet(s) == {s[i] : i \in DOMAIN s}

Span(e) == e.m .. e.d
\* first failing position of a run of joins / leaves applied one after the other: a value that is already
\* in the set the single event checks (view for Join, left for Leave) or occurs earlier in the same run
RunBad(ds, S) == \E i \in DOMAIN ds : ds[i] \in S \/ \E j \in 1..(i - 1) : ds[j] = ds[i]

AQCheck(a, present) ==
  IF present # APresent(a) THEN "harness.treeAgree"
  ELSE IF a.view # APresent(a)
       THEN (IF a.raised THEN "C19.survivesErrors" ELSE "C19.agree")
  ELSE "ok"

ACheck(a, e) ==
  CASE e.e = "PCreate" -> IF a.parent THEN "harness.parentAbsent" ELSE "ok"
    [] e.e = "PDelete" -> IF ~a.parent THEN "harness.parentPresent"
                          ELSE IF a.kids # {} THEN "harness.childrenFirst" ELSE "ok"
    [] e.e = "ZCreate" -> IF ~a.parent \/ e.m \in ANames(a) THEN "harness.createFresh"
                          ELSE IF e.d \in AValues(a) THEN "harness.distinctValues" ELSE "ok"
    [] e.e = "ZDelete" -> IF e.m \notin ANames(a) THEN "harness.deleteExisting" ELSE "ok"
    [] e.e = "Join"    -> IF e.d \in a.view THEN "C19.alternate" ELSE "ok"
    [] e.e = "Leave"   -> IF e.d \in a.left THEN "C19.alternate" ELSE "ok"
    [] e.e = "Raised"  -> "ok"
    [] e.e = "ZCreateN" -> IF ~a.parent \/ Span(e) = {} \/ Span(e) \cap ANames(a) # {} THEN "harness.createFresh"
                           ELSE IF Span(e) \cap AValues(a) # {} THEN "harness.distinctValues" ELSE "ok"
    [] e.e = "ZDeleteN" -> IF ~(Span(e) \subseteq ANames(a)) THEN "harness.deleteExisting" ELSE "ok"
    [] e.e = "Joins"   -> IF RunBad(e.ds, a.view) THEN "C19.alternate" ELSE "ok"
    [] e.e = "Leaves"  -> IF RunBad(e.ds, a.left) THEN "C19.alternate" ELSE "ok"
    [] e.e = "Q"       -> AQCheck(a, SeqToSet(e.present))
    [] e.e \in {"Serve", "Deliver", "Other"} -> "ok"
    [] OTHER -> "harness.unknownEvent"

AStep(a, e) ==
  CASE e.e = "PCreate" -> [a EXCEPT !.parent = TRUE]
    [] e.e = "PDelete" -> [a EXCEPT !.parent = FALSE]
    [] e.e = "ZCreate" -> [a EXCEPT !.kids = @ \cup {<<e.m, e.d>>}]
    [] e.e = "ZDelete" -> [a EXCEPT !.kids = {p \in @ : p[1] # e.m}]
    [] e.e = "Join"    -> [a EXCEPT !.view = @ \cup {e.d}, !.left = @ \ {e.d}, !.raised = FALSE]
    [] e.e = "Leave"   -> [a EXCEPT !.view = @ \ {e.d}, !.left = @ \cup {e.d}, !.raised = FALSE]
    [] e.e = "Raised"  -> [a EXCEPT !.raised = TRUE]
    [] e.e = "ZCreateN" -> [a EXCEPT !.kids = @ \cup {<<m, m>> : m \in Span(e)}]
    [] e.e = "ZDeleteN" -> [a EXCEPT !.kids = {p \in @ : p[1] \notin Span(e)}]
    [] e.e = "Joins"   -> [a EXCEPT !.view = @ \cup SeqToSet(e.ds), !.left = @ \ SeqToSet(e.ds),
                                    !.raised = IF e.ds = <<>> THEN @ ELSE FALSE]
    [] e.e = "Leaves"  -> [a EXCEPT !.view = @ \ SeqToSet(e.ds), !.left = @ \cup SeqToSet(e.ds),
                                    !.raised = IF e.ds = <<>> THEN @ ELSE FALSE]
    [] OTHER -> a

\* ---- per-event operators in the usual shape (check in the pre-state, unguarded update)
EvCheck(e) == ACheck(ast, e)
EvUpd(e)   == ast' = AStep(ast, e)
Ev(e)      == EvCheck(e) = "ok" /\ EvUpd(e)

Mk(name, m, d) == [e |-> name, m |-> m, d |-> d]
PCreateCheck == EvCheck(Mk("PCreate", 0, 0))
PCreateUpd == EvUpd(Mk("PCreate", 0, 0))
PDeleteCheck == EvCheck(Mk("PDelete", 0, 0))
PDeleteUpd == EvUpd(Mk("PDelete", 0, 0))
ZCreateCheck(m, d) == EvCheck(Mk("ZCreate", m, d))
ZCreateUpd(m, d) == EvUpd(Mk("ZCreate", m, d))
ZDeleteCheck(m) == EvCheck(Mk("ZDelete", m, 0))
ZDeleteUpd(m) == EvUpd(Mk("ZDelete", m, 0))
JoinCheck(m, d) == EvCheck(Mk("Join", m, d))
JoinUpd(m, d) == EvUpd(Mk("Join", m, d))
LeaveCheck(m, d) == EvCheck(Mk("Leave", m, d))
LeaveUpd(m, d) == EvUpd(Mk("Leave", m, d))
RaisedCheck == "ok"
RaisedUpd == EvUpd(Mk("Raised", 0, 0))
QuietCheck(present) == AQCheck(ast, present)
QuietUpd == UNCHANGED ast

\* ---- folding a sequence of events (one loop cascade) through the machine
RECURSIVE AFold(_, _, _)
\* returns <<abstract state, first failing clause or "ok">>
AFold(a, v, evs) ==
  IF evs = <<>> THEN <<a, v>>
  ELSE LET e == Head(evs)
           chk == ACheck(a, e)
       IN AFold(AStep(a, e), IF v = "ok" THEN chk ELSE v, Tail(evs))
=============================================================================
