------------------------------- MODULE ZkAbs -------------------------------
(***************************************************************************)
(* C19 -- the ZooKeeper server set as its consumer sees it (property-level  *)
(* oracle).                                                                *)
(*                                                                         *)
(* Observable events:                                                      *)
(*   PCreate / PDelete       the watched path is created / deleted         *)
(*   ZCreate(m) / ZDelete(m) member node m is created / deleted under it   *)
(*   Join(m) / Leave(m)      on_join / on_leave was called for member m    *)
(*   Raised(cb)              that callback raised                          *)
(*   Q(present)              nothing is in flight any more: every watch    *)
(*                           event was delivered and fully processed       *)
(*   Serve / Deliver / Other progress markers, no meaning here             *)
(*                                                                         *)
(* The abstract state is one record so that the code-shaped model can fold *)
(* several callbacks of one loop cascade through the same operators:       *)
(*   ACheck(a, e)  "ok" or the first failing clause, in the state before e *)
(*   AStep(a, e)   the unguarded update                                    *)
(* Clauses (exactly the statement of C19, nothing more):                   *)
(*   C19.alternate       a member joins while the consumer holds it (two   *)
(*                       joins without a leave in between) or leaves twice *)
(*                       without a join in between.  A leave for a member  *)
(*                       that never joined is not forbidden by the text.   *)
(*   C19.agree           at quiescence the joins and leaves applied in     *)
(*                       order leave exactly the members present under the *)
(*                       path (none when the path does not exist).         *)
(*   C19.survivesErrors  the same disagreement when a callback raised and  *)
(*                       no notification at all was delivered after it:    *)
(*                       the error stopped the later notifications.        *)
(* harness.* clauses are sanity checks of the recorded history itself.     *)
(***************************************************************************)
EXTENDS Integers, Sequences, FiniteSets, TLC

VARIABLE ast
avars == <<ast>>

AInit0 == [parent |-> FALSE,   \* the watched path exists
           kids   |-> {},      \* member nodes under it
           view   |-> {},      \* joins/leaves applied in order = members whose last event is a join
           left   |-> {},      \* members whose last event is a leave
           raised |-> FALSE]   \* a callback raised and nothing was delivered since

AInit == ast = AInit0

APresent(a) == IF a.parent THEN a.kids ELSE {}

SeqToSet(s) == {s[i] : i \in DOMAIN s}

AQCheck(a, present) ==
  IF present # APresent(a) THEN "harness.treeAgree"
  ELSE IF a.view # APresent(a)
       THEN (IF a.raised THEN "C19.survivesErrors" ELSE "C19.agree")
  ELSE "ok"

ACheck(a, e) ==
  CASE e.e = "PCreate" -> IF a.parent THEN "harness.parentAbsent" ELSE "ok"
    [] e.e = "PDelete" -> IF ~a.parent THEN "harness.parentPresent"
                          ELSE IF a.kids # {} THEN "harness.childrenFirst" ELSE "ok"
    [] e.e = "ZCreate" -> IF ~a.parent \/ e.m \in a.kids THEN "harness.createFresh" ELSE "ok"
    [] e.e = "ZDelete" -> IF e.m \notin a.kids THEN "harness.deleteExisting" ELSE "ok"
    [] e.e = "Join"    -> IF e.m \in a.view THEN "C19.alternate" ELSE "ok"
    [] e.e = "Leave"   -> IF e.m \in a.left THEN "C19.alternate" ELSE "ok"
    [] e.e = "Raised"  -> "ok"
    [] e.e = "Q"       -> AQCheck(a, SeqToSet(e.present))
    [] e.e \in {"Serve", "Deliver", "Other"} -> "ok"
    [] OTHER -> "harness.unknownEvent"

AStep(a, e) ==
  CASE e.e = "PCreate" -> [a EXCEPT !.parent = TRUE]
    [] e.e = "PDelete" -> [a EXCEPT !.parent = FALSE]
    [] e.e = "ZCreate" -> [a EXCEPT !.kids = @ \cup {e.m}]
    [] e.e = "ZDelete" -> [a EXCEPT !.kids = @ \ {e.m}]
    [] e.e = "Join"    -> [a EXCEPT !.view = @ \cup {e.m}, !.left = @ \ {e.m}, !.raised = FALSE]
    [] e.e = "Leave"   -> [a EXCEPT !.view = @ \ {e.m}, !.left = @ \cup {e.m}, !.raised = FALSE]
    [] e.e = "Raised"  -> [a EXCEPT !.raised = TRUE]
    [] OTHER -> a

\* ---- per-event operators in the usual shape (check in the pre-state, unguarded update)
EvCheck(e) == ACheck(ast, e)
EvUpd(e)   == ast' = AStep(ast, e)
Ev(e)      == EvCheck(e) = "ok" /\ EvUpd(e)

Mk(name, m) == [e |-> name, m |-> m]
PCreateCheck == EvCheck(Mk("PCreate", 0))
PCreateUpd == EvUpd(Mk("PCreate", 0))
PDeleteCheck == EvCheck(Mk("PDelete", 0))
PDeleteUpd == EvUpd(Mk("PDelete", 0))
ZCreateCheck(m) == EvCheck(Mk("ZCreate", m))
ZCreateUpd(m) == EvUpd(Mk("ZCreate", m))
ZDeleteCheck(m) == EvCheck(Mk("ZDelete", m))
ZDeleteUpd(m) == EvUpd(Mk("ZDelete", m))
JoinCheck(m) == EvCheck(Mk("Join", m))
JoinUpd(m) == EvUpd(Mk("Join", m))
LeaveCheck(m) == EvCheck(Mk("Leave", m))
LeaveUpd(m) == EvUpd(Mk("Leave", m))
RaisedCheck == "ok"
RaisedUpd == EvUpd(Mk("Raised", 0))
QuietCheck(present) == AQCheck(ast, present)
QuietUpd == UNCHANGED ast

\* ---- folding a sequence of events (one loop cascade) through the machine
RECURSIVE AFold(_, _, _)
\* returns <<abstract state, first failing clause or "ok">>
AFold(a, v, evs) ==
  IF evs = <<>> THEN <<a, v>>
  ELSE LET e == Head(evs)
           chk == ACheck(a, e)
       IN AFold(AStep(a, e), IF v = "ok" THEN chk ELSE v, Tail(evs))
=============================================================================
