SPECIFICATION Spec
CONSTANTS
  Members = {1, 2, 3}
  Initial = {1, 2, 3}
  MinSize = 1
  MaxSize = 2
  MinL = 1
  MaxL = 4
  SC = 2
  MaxOut = 1
  MaxOpens = 3
  Jitter = FALSE
  Dynamic = TRUE
  EnvBudget = 2
  FlipStates = {"Closed"}
  SteadyK = 0
  ChurnGetFirst = FALSE
CONSTRAINT Bounded
INVARIANT NoViolation
INVARIANT Partition
INVARIANT QuietOk
INVARIANT NoPendingLeak
INVARIANT NeverEmptyWithIdle
INVARIANT Structural
CHECK_DEADLOCK FALSE
