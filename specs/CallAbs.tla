------------------------------ MODULE CallAbs ------------------------------
(***************************************************************************)
(* C01, C02, C12 -- method calls through a complete client stack as the    *)
(* caller and the (simulated) servers see them.  Property-level oracle.    *)
(*                                                                         *)
(* One global, totally ordered sequence of observable events (caller       *)
(* completions and bytes arriving at peers share one sequence counter):    *)
(*   Issue(c, T)        <method>_async called for call c, timeout T        *)
(*   Done(c, kind, ok)  the AsyncResult handed to the caller completed for *)
(*                      the first time; kind in value/error/timeout; ok =  *)
(*                      the value equals the server's echo of c's argument *)
(*   Changed(c)         the caller-visible result (ready, successful,      *)
(*                      value, exception) changed after completion         *)
(*   Wire(conn,c,tag)   the client started writing c's request to conn      *)
(*   SrvRecv(conn,c,..) a complete request decoded at a server; c is the   *)
(*                      call its unique argument belongs to (-1: none);    *)
(*                      tag = mux tag (-1 on serial connections)           *)
(*   Discard(conn,tag)  a Tdiscarded frame naming tag arrived at the peer  *)
(*   ConnClosed(conn)   the client closed that connection                  *)
(*   Quiet              the scheduler is quiescent at this instant         *)
(*   End                end of run: quiescent and the clock is beyond every*)
(*                      deadline                                           *)
(* Times are integer milliseconds on the virtual clock.  TickMs is the     *)
(* resolution of the global timer queue (10 ms).                           *)
(***************************************************************************)
EXTENDS Integers, Sequences, FiniteSets, TLC, IOUtils

PropSel == IF "PROP" \in DOMAIN IOEnv THEN IOEnv.PROP ELSE "all"
On(p) == PropSel = "all" \/ PropSel = p

TickMs == 10
CeilTick(t) == ((t + TickMs - 1) \div TickMs) * TickMs

VARIABLES cclock,   \* last observed clock
          calls,    \* c -> [at, T]                       issued calls
          done,     \* c -> [kind, at]                    completed calls
          wire,     \* set of [c, conn, tag]              requests seen on the wire
          closed,   \* set of conn                        connections closed by the client
          openAtTO, \* set of [c, conn, tag]              requests on a mux connection still open when c timed out
          discards  \* set of [conn, tag]                 discard notices seen
cvars == <<cclock, calls, done, wire, closed, openAtTO, discards>>

CInit(t0) ==
  /\ cclock = t0 /\ calls = <<>> /\ done = <<>> /\ wire = {} /\ closed = {}
  /\ openAtTO = {} /\ discards = {}

Mono(t) == IF t >= cclock THEN "ok" ELSE "harness.clockMonotone"

IssueCheck(c, T, t) ==
  IF Mono(t) # "ok" THEN Mono(t)
  ELSE IF c \in DOMAIN calls THEN "harness.freshCall" ELSE "ok"
IssueUpd(c, T, t) ==
  /\ cclock' = t /\ calls' = calls @@ (c :> [at |-> t, T |-> T])
  /\ UNCHANGED <<done, wire, closed, openAtTO, discards>>

\* kind: "value" | "error" | "timeout";  ok: value is the echo of the call's own argument
DoneCheck(c, kind, ok, t) ==
  IF Mono(t) # "ok" THEN Mono(t)
  ELSE IF c \notin DOMAIN calls THEN "harness.knownCall"
  ELSE IF On("C01") /\ c \in DOMAIN done THEN "C01.once"
  ELSE IF On("C01") /\ kind \notin {"value", "error", "timeout"} THEN "C01.outcome"
  ELSE IF On("C01") /\ calls[c].T > 0 /\ t > CeilTick(calls[c].at + calls[c].T) THEN "C01.deadline"
  ELSE IF On("C01") /\ kind = "timeout" /\ t < calls[c].at + calls[c].T THEN "C01.notEarly"
  \* C01 says "with the server's reply to that call" as well; reported under C02 unless C01 alone is checked
  ELSE IF PropSel = "C01" /\ kind = "value" /\ ~ok THEN "C01.ownReply"
  ELSE IF On("C02") /\ kind = "value" /\ ~ok THEN "C02.ownReply"
  ELSE "ok"
DoneUpd(c, kind, ok, t) ==
  /\ cclock' = t
  /\ done' = IF c \in DOMAIN done THEN done ELSE done @@ (c :> [kind |-> kind, at |-> t])
  /\ openAtTO' = IF kind = "timeout"
                 THEN openAtTO \cup {w \in wire : w.c = c /\ w.tag >= 0 /\ w.conn \notin closed}
                 ELSE openAtTO
  /\ UNCHANGED <<calls, wire, closed, discards>>

ChangedCheck(c, t) ==
  IF Mono(t) # "ok" THEN Mono(t)
  ELSE IF On("C01") THEN "C01.once" ELSE "ok"
ChangedUpd(c, t) == cclock' = t /\ UNCHANGED <<calls, done, wire, closed, openAtTO, discards>>

\* a complete request arrived at a server (decoded there)
SrvRecvCheck(conn, c, tag, argOk, methodOk, t) ==
  IF Mono(t) # "ok" THEN Mono(t)
  ELSE IF On("C02") /\ (c \notin DOMAIN calls \/ ~argOk \/ ~methodOk) THEN "C02.requestFaithful"
  ELSE "ok"
SrvRecvUpd(conn, c, tag, argOk, methodOk, t) ==
  /\ cclock' = t
  /\ UNCHANGED <<calls, done, wire, closed, openAtTO, discards>>

\* the client starts writing the request of call c to a connection (the moment its bytes count as
\* written, even if the write call blocks and the peer sees them later)
WireCheck(conn, c, tag, t) ==
  IF Mono(t) # "ok" THEN Mono(t)
  ELSE IF On("C12") /\ c \in DOMAIN done /\ done[c].kind = "timeout" THEN "C12.noLateBytes"
  ELSE "ok"
WireUpd(conn, c, tag, t) ==
  /\ cclock' = t
  /\ wire' = wire \cup {[c |-> c, conn |-> conn, tag |-> tag]}
  /\ UNCHANGED <<calls, done, closed, openAtTO, discards>>

DiscardCheck(conn, tag, t) == Mono(t)
DiscardUpd(conn, tag, t) ==
  /\ cclock' = t /\ discards' = discards \cup {[conn |-> conn, tag |-> tag]}
  /\ UNCHANGED <<calls, done, wire, closed, openAtTO>>

ConnClosedCheck(conn, t) == Mono(t)
ConnClosedUpd(conn, t) ==
  /\ cclock' = t /\ closed' = closed \cup {conn}
  /\ UNCHANGED <<calls, done, wire, openAtTO, discards>>

\* Discard notices are owed for requests that were on a multiplexed connection that was
\* open when the timeout was delivered and is still open now.
Owed == {w \in openAtTO : w.conn \notin closed /\ [conn |-> w.conn, tag |-> w.tag] \notin discards}

QuietCheck(t) ==
  IF Mono(t) # "ok" THEN Mono(t)
  ELSE IF On("C12") /\ Owed # {} THEN "C12.discard"
  ELSE "ok"
QuietUpd(t) == cclock' = t /\ UNCHANGED <<calls, done, wire, closed, openAtTO, discards>>

\* End of run: the clock is past every deadline (the driver guarantees it) and quiescent.
EndCheck(t) ==
  IF QuietCheck(t) # "ok" THEN QuietCheck(t)
  ELSE IF \E c \in DOMAIN calls : calls[c].T > 0 /\ t < CeilTick(calls[c].at + calls[c].T) THEN "harness.endAfterDeadlines"
  ELSE IF On("C01") /\ \E c \in DOMAIN calls : calls[c].T > 0 /\ c \notin DOMAIN done THEN "C01.completes"
  ELSE "ok"
EndUpd(t) == QuietUpd(t)
=============================================================================
