SPECIFICATION Spec
CONSTANTS
  MinS = {0, 1}
  MaxS = {1, 2}
  QS = {0, 1, 2}
  NReq = 4
  NConn = 3
  MaxDie = 2
  MaxTmo = 2
  ExtClose = FALSE
  FixPQ = TRUE
  FixDeq = TRUE
  FixMaxW = TRUE
INVARIANT NoViolation
INVARIANT QuietOK
INVARIANT StopOK
INVARIANT ProbeOK
INVARIANT SizeAccounting
INVARIANT CacheXorWaiters
INVARIANT NothingLeaked
INVARIANT SizeBound
CHECK_DEADLOCK FALSE
