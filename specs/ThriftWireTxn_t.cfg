SPECIFICATION Spec
CONSTANTS
  MaxPayload = 2
  NTxn = 2
  Variants = {"varz", "raw"}
  Partial = {1, 2, 3, 4, 5}
  ReopenOnStall = TRUE
INVARIANT NoViolation
INVARIANT Structural
INVARIANT CurrentWhole
CHECK_DEADLOCK FALSE
