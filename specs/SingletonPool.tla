---------------------------- MODULE SingletonPool ----------------------------
(***************************************************************************)
(* Code-shaped model of scales/pool/singleton.py SingletonPoolSink over a  *)
(* counting provider of mock connections (C16).                            *)
(*                                                                         *)
(* Pool state as in the code: refc (_ref_count), next (next_sink, 0 =      *)
(* None), per connection whether the pool is subscribed to its on_faulted. *)
(* Mock connection c: st (Idle until its open completes, then Open, Closed *)
(* once failed / died / closed), ar (the pending-open AsyncResult handed   *)
(* out by Open()), links (greenlets parked in Open().wait()), notif (the   *)
(* gevent notifier of ar is queued).                                       *)
(* One action per loop quantum or environment call:                        *)
(*   HOpen / HClose   a holder calls pool.Open() / pool.Close() (sync)     *)
(*   Request          gevent.spawn(pool.AsyncProcessRequest, ...)          *)
(*   OpenDone(c, ok)  the environment completes c's pending open           *)
(*   Die(c)           the environment fails c: state Closed, on_faulted.Set*)
(*   Respond(r, c)    the environment answers request r held in flight on  *)
(*                    c; the response passes the pool's frame (_Release)   *)
(*   RunTask          head of the FIFO run queue:                          *)
(*     G g   start of greenlet g (AsyncResult.Run(TryGet) or a request):   *)
(*           _Get from the top to its first yield or to completion         *)
(*     N c   notifier of c's open result: resumes every parked greenlet in *)
(*           order inside this one quantum; each continues after           *)
(*           Open().wait() with `return self.next_sink` (re-read!)         *)
(*     F c   Observable.__Notify of c.on_faulted: if the pool is (still)   *)
(*           subscribed, __PropagateShutdown -> pool.on_faulted.Set ->     *)
(*           spawns P                                                      *)
(*     P     Observable.__Notify of the pool's own on_faulted (no          *)
(*           subscriber in this harness)                                   *)
(* _Get's four branches are GetSeg.  A request whose _Get returns None     *)
(* (Close() landed while it waited) dies with AttributeError: pc "dead".   *)
(* The property-level machine ShareAbs runs in lock-step on `abs`; every   *)
(* observable event of a step is folded into it, `viol` keeps the first    *)
(* failing clause, quiescent states are judged by the Q event.             *)
(***************************************************************************)
EXTENDS ShareAbs

CONSTANTS MaxOpen, MaxClose, MaxReq, MaxConn, MaxFail,
          EagerRelease   \* FALSE: _Release is a no-op (as in /repo).  TRUE: documented variant in
                         \* which _Release(sink) drops the pool's CURRENT sink when `sink` is closed

VARIABLES refc, next, conn, gl, runq, infl, nopen, nclose, nfail, abs, viol
ivars == <<refc, next, conn, gl, runq, infl, nopen, nclose, nfail>>
vars == <<ivars, abs, viol>>

E(e, c, r, ok) == [e |-> e, c |-> c, r |-> r, ok |-> ok, h |-> 0, s |-> 0, k |-> 0]
T(k, x) == [k |-> k, x |-> x]

\* infl: requests in flight on a connection (the mock holds them until Respond)
St == [refc |-> refc, next |-> next, conn |-> conn, gl |-> gl, runq |-> runq, infl |-> infl, evs |-> <<>>]

\* after _Get returned `ret` for greenlet g
Finish(s, g) ==
  LET ret == s.next IN
  IF s.gl[g].kind = "tryget" THEN [s EXCEPT !.gl[g].pc = "done"]
  ELSE IF ret = 0 THEN [s EXCEPT !.gl[g].pc = "dead"]       \* None.AsyncProcessRequest
  ELSE [s EXCEPT !.gl[g].pc = "done", !.infl = @ \cup {[r |-> s.gl[g].r, c |-> ret]},
                 !.evs = Append(@, E("Seen", ret, s.gl[g].r, TRUE))]

\* _Get from the top, for greenlet g
RECURSIVE GetSeg(_, _)
GetSeg(s, g) ==
  IF s.next = 0
  THEN \* CreateSink; Subscribe; Open().wait()
       LET c == Len(s.conn) + 1 IN
       [s EXCEPT !.conn = Append(@, [st |-> "Idle", ar |-> "pending", links |-> <<g>>,
                                     notif |-> FALSE, sub |-> TRUE]),
                 !.next = c,
                 !.gl[g].pc = "wait",
                 !.evs = @ \o <<E("Create", c, 0, TRUE), E("UOpen", c, 0, TRUE)>>]
  ELSE IF s.conn[s.next].st = "Idle"
  THEN \* next_sink.Open().wait()
       LET c == s.next
           s1 == [s EXCEPT !.evs = Append(@, E("UOpen", c, 0, TRUE))]
       IN IF s.conn[c].ar = "pending" \/ s.conn[c].notif
          THEN [s1 EXCEPT !.conn[c].links = Append(@, g), !.gl[g].pc = "wait"]
          ELSE Finish(s1, g)
  ELSE IF s.conn[s.next].st = "Closed"
  THEN \* Unsubscribe; next_sink = None; return self._Get()
       GetSeg([s EXCEPT !.conn[s.next].sub = FALSE, !.next = 0], g)
  ELSE Finish(s, g)

RECURSIVE ResumeAll(_, _)
ResumeAll(s, ls) == IF ls = <<>> THEN s ELSE ResumeAll(Finish(s, Head(ls)), Tail(ls))

Install(s) ==
  /\ refc' = s.refc /\ next' = s.next /\ conn' = s.conn /\ gl' = s.gl /\ runq' = s.runq
  /\ infl' = s.infl
  /\ LET f == EvFold(abs, "ok", s.evs) IN
       /\ abs' = f.a
       /\ viol' = IF viol = "ok" THEN f.chk ELSE viol

Init ==
  /\ refc = 0 /\ next = 0 /\ conn = <<>> /\ gl = <<>> /\ runq = <<>> /\ infl = {}
  /\ nopen = 0 /\ nclose = 0 /\ nfail = 0
  /\ abs = A0("singleton")
  /\ viol = "ok"

Spawn(s, kind, r) ==
  LET g == Len(s.gl) + 1 IN
  [s EXCEPT !.gl = Append(@, [kind |-> kind, r |-> r, pc |-> "start"]),
            !.runq = Append(@, T("G", g))]

HOpen ==
  /\ nopen < MaxOpen
  /\ nopen' = nopen + 1
  /\ LET s0 == [St EXCEPT !.refc = @ + 1, !.evs = <<[E("Open", 0, 0, TRUE) EXCEPT !.h = nopen + 1]>>]
     IN Install(IF s0.refc > 1 THEN s0 ELSE Spawn(s0, "tryget", 0))
  /\ UNCHANGED <<nclose, nfail>>

HClose ==
  /\ nclose < MaxClose
  /\ nclose' = nclose + 1
  /\ LET s0 == [St EXCEPT !.refc = @ - 1, !.evs = <<E("Close", 0, 0, TRUE)>>]
     IN Install(IF s0.next # 0 /\ s0.refc <= 0
                THEN [s0 EXCEPT !.next = 0,
                                !.conn[s0.next].sub = FALSE,
                                !.conn[s0.next].st = "Closed",
                                !.evs = Append(@, E("UClose", s0.next, 0, TRUE))]
                ELSE s0)
  /\ UNCHANGED <<nopen, nfail>>

NReq == Cardinality({g \in DOMAIN gl : gl[g].kind = "req"})

Request ==
  /\ NReq < MaxReq
  /\ LET r == NReq + 1
     IN Install(Spawn([St EXCEPT !.evs = <<E("Req", 0, r, TRUE)>>], "req", r))
  /\ UNCHANGED <<nopen, nclose, nfail>>

\* the mock completes an open on a dead connection as a failure
OpenDone(c, ok) ==
  /\ c \in DOMAIN conn /\ conn[c].ar = "pending"
  /\ ok => conn[c].st # "Closed"       \* (on a dead connection the mock turns ok into a failure anyway)
  /\ ok \/ conn[c].st = "Closed" \/ nfail < MaxFail
  /\ nfail' = IF ok \/ conn[c].st = "Closed" THEN nfail ELSE nfail + 1
  /\ LET up == ok /\ conn[c].st # "Closed"
         s0 == [St EXCEPT !.conn[c].st = IF up THEN "Open" ELSE "Closed",
                          !.conn[c].ar = IF up THEN "ok" ELSE "fail",
                          !.evs = <<E("OpenDone", c, 0, up)>>]
     IN Install(IF s0.conn[c].links # <<>> /\ ~s0.conn[c].notif
                THEN [s0 EXCEPT !.conn[c].notif = TRUE, !.runq = Append(@, T("N", c))]
                ELSE s0)
  /\ UNCHANGED <<nopen, nclose>>

Die(c) ==
  /\ c \in DOMAIN conn /\ conn[c].st # "Closed"
  /\ nfail < MaxFail
  /\ nfail' = nfail + 1
  /\ Install([St EXCEPT !.conn[c].st = "Closed",
                        !.runq = Append(@, T("F", c)),
                        !.evs = <<E("Die", c, 0, TRUE)>>])
  /\ UNCHANGED <<nopen, nclose>>

\* The environment answers request r held on connection c (an error if c is dead, possibly long
\* after c died).  The response unwinds r's sink stack synchronously: the pool's frame runs
\* PoolSink.AsyncProcessResponse -> _Release(c) and passes the message on.
Respond(r, c) ==
  /\ [r |-> r, c |-> c] \in infl
  /\ LET s0 == [St EXCEPT !.infl = @ \ {[r |-> r, c |-> c]},
                          !.evs = <<E("Resp", c, r, conn[c].st # "Closed")>>]
     IN Install(IF EagerRelease /\ s0.next # 0 /\ conn[c].st = "Closed"
                THEN [s0 EXCEPT !.conn[s0.next].sub = FALSE, !.next = 0]
                ELSE s0)
  /\ UNCHANGED <<nopen, nclose, nfail>>

RunTask ==
  /\ runq # <<>>
  /\ LET t == Head(runq)
         s0 == [St EXCEPT !.runq = Tail(runq)]
     IN Install(
          CASE t.k = "G" -> GetSeg(s0, t.x)
            [] t.k = "N" -> LET ls == s0.conn[t.x].links IN
                            ResumeAll([s0 EXCEPT !.conn[t.x].links = <<>>, !.conn[t.x].notif = FALSE], ls)
            [] t.k = "F" -> IF s0.conn[t.x].sub THEN [s0 EXCEPT !.runq = Append(@, T("P", 0))] ELSE s0
            [] t.k = "P" -> s0)
  /\ UNCHANGED <<nopen, nclose, nfail>>

Next == \/ HOpen \/ HClose \/ Request \/ RunTask
        \/ \E c \in 1..MaxConn, ok \in BOOLEAN : OpenDone(c, ok)
        \/ \E c \in 1..MaxConn : Die(c)
        \/ \E r \in 1..MaxReq, c \in 1..MaxConn : Respond(r, c)

Spec == Init /\ [][Next]_vars

Bound == Len(conn) <= MaxConn

\* ------------------------------------------------------------------ properties
Quiescent == runq = <<>>
NoViolation == viol = "ok" /\ (Quiescent => EvCheck(abs, E("Q", 0, 0, TRUE)) = "ok")

Structural ==
  /\ \A c \in DOMAIN conn : conn[c].sub = (c = next)
  /\ Cardinality({c \in DOMAIN conn : conn[c].st # "Closed"}) <= 1
  /\ \A c \in DOMAIN conn : conn[c].notif = (\E j \in DOMAIN runq : runq[j] = T("N", c))
  /\ \A c \in DOMAIN conn : conn[c].links # <<>> => (conn[c].ar = "pending" \/ conn[c].notif)
  /\ \A g \in DOMAIN gl : gl[g].pc = "wait" =>
        Cardinality({c \in DOMAIN conn : \E j \in DOMAIN conn[c].links : conn[c].links[j] = g}) = 1
  /\ \A g \in DOMAIN gl : gl[g].pc = "start" => \E j \in DOMAIN runq : runq[j] = T("G", g)

\* Outside C16 (documented, not asserted): a request can be lost.  Reachable iff
\* Close() lands while a request waits for the open:  ~NoLostRequest is a TLC witness.
NoLostRequest == \A g \in DOMAIN gl : gl[g].pc # "dead"
=============================================================================
