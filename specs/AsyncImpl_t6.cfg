SPECIFICATION Spec
CONSTANTS
  CombSet = {"WhenAll", "WhenAny"}
  N = 6
  Fixed = TRUE
INVARIANT NoViolation
INVARIANT Structural
CHECK_DEADLOCK FALSE
