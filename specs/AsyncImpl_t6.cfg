SPECIFICATION Spec
CONSTANTS
  CombSet = {"WhenAll", "WhenAny"}
  N = 6
  Fixed = TRUE
  Follow = FALSE
INVARIANT NoViolation
INVARIANT Structural
CHECK_DEADLOCK FALSE
