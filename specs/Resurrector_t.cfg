SPECIFICATION Spec
CONSTANTS
  W <- W4
  MaxT = 24
  FixClose = TRUE
INVARIANT NoViolation
INVARIANT Structural
INVARIANT RecoversAtWake
CHECK_DEADLOCK FALSE
