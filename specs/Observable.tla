----------------------------- MODULE Observable -----------------------------
(***************************************************************************)
(* Code-shaped model of scales/observable.py (growth beyond the listed      *)
(* properties; C09's quiet-after-close and C12's "timed out while queued"   *)
(* test rest on it).                                                       *)
(*   Set(v)         stores the value at once and spawns __Notify(v)         *)
(*   Notify         (deferred) calls the persistent subscribers that are    *)
(*                  subscribed WHEN IT RUNS, then takes and calls the       *)
(*                  one-shot subscribers                                   *)
(*   Subscribe / Unsubscribe  at any time                                  *)
(* calls[s] counts how often subscriber s was called, last[s] the value.   *)
(***************************************************************************)
EXTENDS Integers, Sequences, FiniteSets, TLC

CONSTANTS Subs, Vals, MaxSets

VARIABLES value, persistent, oneshot, pending, calls, last, nsets

vars == <<value, persistent, oneshot, pending, calls, last, nsets>>

Init ==
  /\ value = 0 /\ persistent = {} /\ oneshot = {} /\ pending = <<>>
  /\ calls = [s \in Subs |-> 0] /\ last = [s \in Subs |-> 0] /\ nsets = 0

Set(v) ==
  /\ nsets < MaxSets
  /\ value' = v /\ pending' = Append(pending, v) /\ nsets' = nsets + 1
  /\ UNCHANGED <<persistent, oneshot, calls, last>>

Notify ==
  /\ pending # <<>>
  /\ LET v == Head(pending) called == persistent \cup oneshot IN
     /\ pending' = Tail(pending)
     /\ calls' = [s \in Subs |-> IF s \in persistent /\ s \in oneshot THEN calls[s] + 2
                                  ELSE IF s \in called THEN calls[s] + 1 ELSE calls[s]]
     /\ last' = [s \in Subs |-> IF s \in called THEN v ELSE last[s]]
     /\ oneshot' = {}
  /\ UNCHANGED <<value, persistent, nsets>>

Subscribe(s, once) ==
  /\ IF once THEN oneshot' = oneshot \cup {s} /\ UNCHANGED persistent
     ELSE persistent' = persistent \cup {s} /\ UNCHANGED oneshot
  /\ UNCHANGED <<value, pending, calls, last, nsets>>

Unsubscribe(s) ==
  /\ s \in persistent \cup oneshot
  /\ persistent' = persistent \ {s} /\ oneshot' = oneshot \ {s}
  /\ UNCHANGED <<value, pending, calls, last, nsets>>

Next == (\E v \in Vals : Set(v)) \/ Notify
        \/ (\E s \in Subs, once \in BOOLEAN : Subscribe(s, once)) \/ (\E s \in Subs : Unsubscribe(s))
Spec == Init /\ [][Next]_vars

\* Get() is synchronous: the value is the last one set, whether or not it was notified yet
GetIsLastSet == (pending # <<>>) => value = pending[Len(pending)]
\* an unsubscribed subscriber is never called by a notification that runs after the Unsubscribe,
\* even if the Set happened before it (what ResurrectorSink.Close() relies on)
QuietAfterUnsubscribe == [][\A s \in Subs : (s \notin persistent \cup oneshot) => calls'[s] = calls[s]]_vars
\* a one-shot subscriber is called at most once per subscription
OneShotOnce == [][\A s \in Subs : (s \in oneshot /\ s \notin persistent) => calls'[s] <= calls[s] + 1]_vars
=============================================================================
