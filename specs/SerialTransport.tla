--------------------------- MODULE SerialTransport ---------------------------
(***************************************************************************)
(* Code-shaped model of scales/thrift/sink.py SocketTransportSink over      *)
(* scales_socket.ScalesSocket / varz.VarzSocketWrapper (C08).               *)
(*                                                                         *)
(* One action per I/O step of the transaction greenlet; the environment can *)
(* fail any step (exception / EOF), let the transport-level timeout fire at *)
(* any parked step, and refuse the (re-)connect.  This is fault enumeration *)
(* by TLC: (operation x fault kind x in-flight request) is the action space.*)
(*   sock      "none" | "connecting" | "open"    ScalesSocket.handle         *)
(*   tstate    "Idle" | "Open" | "Closed"         SocketTransportSink._state *)
(*   proc      0 | r                              _processing                *)
(*   step      where the transaction greenlet of `proc` is parked           *)
(* Reported state = Open if the socket is open, else tstate.                *)
(* FixSocket: handle is assigned only after connect() succeeded (8d07b77).  *)
(* FixReopen: a failed re-connect after a timeout faults the sink (aacc8da).*)
(***************************************************************************)
EXTENDS Integers, FiniteSets, TLC

CONSTANTS Reqs, FixSocket, FixReopen

VARIABLES sock, tstate, proc, step, opening, got, errs, signals, failed, inflightAtFail, ownerClosed, dead

vars == <<sock, tstate, proc, step, opening, got, errs, signals, failed, inflightAtFail, ownerClosed, dead>>

Init ==
  /\ sock = "none" /\ tstate = "Idle" /\ proc = 0 /\ step = "none" /\ opening = FALSE
  /\ got = [r \in Reqs |-> 0]          \* messages delivered to r's sink stack
  /\ errs = [r \in Reqs |-> 0]         \* ... of which errors
  /\ signals = 0 /\ failed = FALSE /\ inflightAtFail = {} /\ ownerClosed = FALSE
  /\ dead = {}                         \* requests whose transaction greenlet died without answering

Reported == IF sock = "open" \/ (~FixSocket /\ sock \in {"connecting", "refused"}) THEN "Open" ELSE tstate

Deliver(r, isErr) ==
  /\ got' = [got EXCEPT ![r] = @ + 1]
  /\ errs' = [errs EXCEPT ![r] = IF isErr THEN @ + 1 ELSE @]

InFlight == IF proc = 0 THEN {} ELSE {proc}

\* Close(): _state = Closed, socket closed, _open_result dropped, transaction killed
CloseEff == /\ tstate' = "Closed" /\ sock' = "none"

\* _Fault(reason): no-op when already reporting Closed; else Close() + fault signal
FaultEff ==
  IF Reported = "Closed" THEN UNCHANGED <<tstate, sock, signals>>
  ELSE CloseEff /\ signals' = signals + 1

NoteFailure == /\ failed' = TRUE
               /\ inflightAtFail' = IF failed THEN inflightAtFail ELSE InFlight

\* ---- Open ------------------------------------------------------------------------
Open ==
  /\ ~opening /\ sock = "none" /\ tstate = "Idle" /\ ~ownerClosed
  /\ opening' = TRUE /\ sock' = "connecting"
  /\ UNCHANGED <<tstate, proc, step, got, errs, signals, failed, inflightAtFail, ownerClosed, dead>>

ConnectOk ==
  /\ opening /\ sock = "connecting"
  /\ sock' = "open" /\ tstate' = "Open" /\ opening' = FALSE
  /\ UNCHANGED <<proc, step, got, errs, signals, failed, inflightAtFail, ownerClosed, dead>>

\* refused connect during Open(): _OpenImpl -> _Fault('Open failed')
ConnectRefused ==
  /\ opening /\ sock = "connecting"
  /\ opening' = FALSE
  /\ NoteFailure
  /\ IF FixSocket
     THEN /\ tstate' = "Closed" /\ sock' = "none" /\ signals' = signals + 1   \* state was Idle: _Fault proceeds
     ELSE \* handle still set: state reads Open, _Fault closes the wrapper (not open -> skipped):
          \* handle stays, the sink keeps reporting Open
          /\ tstate' = "Closed" /\ sock' = "refused" /\ signals' = signals + 1
  /\ UNCHANGED <<proc, step, got, errs, ownerClosed, dead>>

\* ---- requests ----------------------------------------------------------------------
\* Requests reach the sink only after its Open() completed (the pool waits for it), or once it is dead.
Request(r) ==
  /\ got[r] = 0 /\ r # proc /\ r \notin dead
  /\ (proc # 0 \/ sock = "open" \/ tstate = "Closed")
  /\ IF proc # 0
     THEN \* ChannelConcurrencyError answered at once
          Deliver(r, TRUE) /\ UNCHANGED <<proc, step>>
     ELSE IF sock # "open"
     THEN \* a dead sink: the transaction's write fails at once, _Fault is a no-op (already Closed)
          Deliver(r, TRUE) /\ UNCHANGED <<proc, step>>
     ELSE proc' = r /\ step' = "spawned" /\ UNCHANGED <<got, errs>>
  /\ UNCHANGED <<sock, tstate, opening, signals, failed, inflightAtFail, ownerClosed, dead>>

\* the transaction greenlet advances one I/O step successfully
TxnOk ==
  /\ proc # 0 /\ step \in {"spawned", "wrote", "hdr"} /\ sock = "open"
  /\ IF step = "hdr"
     THEN /\ Deliver(proc, FALSE) /\ proc' = 0 /\ step' = "none"     \* reply read: _ProcessReply
     ELSE /\ step' = (IF step = "spawned" THEN "wrote" ELSE "hdr") /\ UNCHANGED <<proc, got, errs>>
  /\ UNCHANGED <<sock, tstate, opening, signals, failed, inflightAtFail, ownerClosed, dead>>

\* write / read raises or hits EOF (also: the socket is not usable at all)
TxnFault ==
  /\ proc # 0 /\ step \in {"spawned", "wrote", "hdr"}
  /\ NoteFailure
  /\ FaultEff
  /\ Deliver(proc, TRUE) /\ proc' = 0 /\ step' = "none"
  /\ UNCHANGED <<opening, ownerClosed, dead>>

\* gevent.Timeout fires at a parked step (or the deadline had passed before the write):
\* close the socket, re-open it, answer TimeoutError
TxnTimeout ==
  /\ proc # 0 /\ step \in {"spawned", "wrote", "hdr"} /\ sock = "open"
  /\ sock' = "connecting" /\ step' = "reopen"
  /\ UNCHANGED <<tstate, proc, opening, got, errs, signals, failed, inflightAtFail, ownerClosed, dead>>

ReopenOk ==
  /\ proc # 0 /\ step = "reopen"
  /\ sock' = "open"
  /\ Deliver(proc, TRUE) /\ proc' = 0 /\ step' = "none"
  /\ UNCHANGED <<tstate, opening, signals, failed, inflightAtFail, ownerClosed, dead>>

ReopenRefused ==
  /\ proc # 0 /\ step = "reopen"
  /\ NoteFailure
  /\ IF FixReopen
     THEN /\ tstate' = "Closed" /\ sock' = "none" /\ signals' = signals + 1
          /\ Deliver(proc, TRUE) /\ proc' = 0 /\ step' = "none" /\ UNCHANGED dead
     ELSE \* the exception escapes the greenlet: nothing is answered, _processing stays set
          /\ sock' = (IF FixSocket THEN "none" ELSE "refused")
          /\ dead' = dead \cup {proc} /\ step' = "dead"
          /\ UNCHANGED <<tstate, signals, proc, got, errs>>
  /\ UNCHANGED <<opening, ownerClosed>>

\* The owner closes the sink (not a failure).  Closing the socket cancels the transaction's pending
\* read first (it raises into the greenlet, which answers its request with that error; _Fault is a
\* no-op on a Closed sink), the kill comes second.  A transaction parked in the re-connect is just killed.
OwnerClose ==
  /\ ~ownerClosed
  /\ ownerClosed' = TRUE /\ tstate' = "Closed" /\ sock' = "none" /\ opening' = FALSE
  /\ IF proc # 0 /\ step \in {"spawned", "wrote", "hdr"}
     THEN Deliver(proc, TRUE)
     ELSE UNCHANGED <<got, errs>>
  /\ proc' = 0 /\ step' = "none"
  /\ UNCHANGED <<signals, failed, inflightAtFail, dead>>

Next == Open \/ ConnectOk \/ ConnectRefused \/ (\E r \in Reqs : Request(r))
        \/ TxnOk \/ TxnFault \/ TxnTimeout \/ ReopenOk \/ ReopenRefused \/ OwnerClose

Spec == Init /\ [][Next]_vars

\* ------------------------------------------------------------------ C08 clauses
Quiescent == ~opening /\ step \in {"none", "dead"} /\ sock # "connecting"
\* exactly once
FailOnce == \A r \in Reqs : got[r] <= 1
\* after a failure (not an owner close), at quiescence: everything in flight got its one error,
\* the sink reports Closed and has signalled
AfterFailure == (failed /\ ~ownerClosed /\ Quiescent) =>
  /\ \A r \in inflightAtFail : got[r] = 1 /\ errs[r] = 1
  /\ Reported = "Closed"
  /\ signals >= 1
\* a sink that reports Open and is idle can carry the next request
OpenMeansUsable == (Reported = "Open" /\ Quiescent /\ ~ownerClosed) => (sock = "open" /\ proc = 0)
=============================================================================
