SPECIFICATION Spec
CONSTANTS
  Tags <- SomeTags
  KeyLen = 1
  ValLen = 1
  HiBytes <- HiQuick
  Variant = "fixed"
INVARIANT RoundTrip
INVARIANT ChecksAccept
INVARIANT ChecksRejectCorruption
INVARIANT ImplAgrees
CHECK_DEADLOCK FALSE
