SPECIFICATION Spec
CONSTANTS
  Subs = {1, 2}
  Vals = {1, 2}
  MaxSets = 3
INVARIANT GetIsLastSet
PROPERTY QuietAfterUnsubscribe
PROPERTY OneShotOnce
CHECK_DEADLOCK FALSE
