SPECIFICATION Spec
CONSTANTS
  MinS = {1, 2}
  MaxS = {1, 2}
  QS = {1, 2}
  NReq = 3
  NConn = 3
  MaxDie = 1
  MaxTmo = 2
  ExtClose = TRUE
  FixPQ = TRUE
  FixDeq = TRUE
  FixMaxW = TRUE
INVARIANT NoViolation
INVARIANT QuietOK
INVARIANT StopOK
INVARIANT ProbeOK
INVARIANT SizeAccounting
INVARIANT CacheXorWaiters
INVARIANT NothingLeaked
INVARIANT SizeBound
CHECK_DEADLOCK FALSE
