SPECIFICATION SteadySpec
CONSTANTS
  Members = {1, 2, 3, 4}
  Initial = {1, 2, 3, 4}
  MinSize = 2
  MaxSize = 3
  MinL = 1
  MaxL = 3
  SC = 2
  MaxOut = 6
  MaxOpens = 4
  Jitter = FALSE
  Dynamic = FALSE
  EnvBudget = 0
  FlipStates = {}
  SteadyK = 5
  ChurnGetFirst = FALSE
CONSTRAINT Bounded
INVARIANT Partition
PROPERTY Settles
CHECK_DEADLOCK FALSE
