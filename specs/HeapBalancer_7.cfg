SPECIFICATION Spec
CONSTANTS
  MaxNodes = 7
  Eps = {1,2,3,4,5,6,7}
  InitN = 7
  MaxLoad = 2
  P = 100
  Repaired = TRUE
  Faults = FALSE
  Membership = FALSE
  TrackLate = FALSE
  Noise = TRUE
  Aperture = FALSE
  MinSize = 1
  StaleSize = FALSE
  Light = TRUE
INVARIANT NoViolation
INVARIANT HeapOrder
INVARIANT Structural
CHECK_DEADLOCK FALSE
