SPECIFICATION PSpec
CONSTANTS
  MaxLen = 5
  Probes = {"str", "tcp", "zk", "other", "names", "cache", "prov"}
  LookupInherited = FALSE
  OneShot = FALSE
INVARIANT SplitJoin
INVARIANT TcpRoundTrip
INVARIANT ZkRoundTrip
INVARIANT OtherRejected
INVARIANT NamesLaw
INVARIANT CacheFaithful
INVARIANT ProviderIsValue
CHECK_DEADLOCK FALSE
