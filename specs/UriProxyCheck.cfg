SPECIFICATION PSpec
CONSTANTS
  MaxLen = 5
INVARIANT SplitJoin
INVARIANT TcpRoundTrip
INVARIANT ZkRoundTrip
INVARIANT OtherRejected
INVARIANT NamesLaw
INVARIANT CacheFaithful
CHECK_DEADLOCK FALSE
