SPECIFICATION Spec
CONSTANTS
  W <- W3
  MaxT = 14
  FixClose = TRUE
INVARIANT NoViolation
INVARIANT Structural
INVARIANT RecoversAtWake
CHECK_DEADLOCK FALSE
