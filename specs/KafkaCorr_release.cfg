SPECIFICATION Spec
CONSTANTS
  Reqs = {1, 2, 3}
  MaxTag = 7
  FixSent = TRUE
  ReleaseOnTimeout = TRUE
INVARIANT NoViolation
CHECK_DEADLOCK FALSE
