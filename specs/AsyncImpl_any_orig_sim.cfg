SPECIFICATION Spec
CONSTANTS
  CombSet = {"WhenAny"}
  N = 4
  Fixed = FALSE
CHECK_DEADLOCK FALSE
