SPECIFICATION Spec
CONSTANTS
  CombSet = {"WhenAny"}
  N = 4
  Fixed = FALSE
  Follow = FALSE
CHECK_DEADLOCK FALSE
