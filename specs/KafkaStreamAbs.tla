---------------------------- MODULE KafkaStreamAbs ----------------------------
(***************************************************************************)
(* C15, stream mode -- "the produce request is a valid Kafka v0            *)
(* ProduceRequest: one topic, one partition and a message set whose        *)
(* declared sizes match the bytes present and whose per-message CRC32      *)
(* verifies, preceded by a size-prefixed request header ..." judged on the *)
(* byte stream the broker actually receives from a LIVE connection (large  *)
(* and small requests issued concurrently, writes that stall part-way).    *)
(*                                                                         *)
(* Observables of one connection (one trace = one connection):              *)
(*   SSup(api, topic, partition, acks, payloads, cid)  a request is        *)
(*                 supplied to the client stack (api 0 produce, 3 metadata;*)
(*                 the correlation id is the transport's choice)           *)
(*   SBytes(data)  the connection accepted these bytes, in this order      *)
(*                 (what the broker's TCP stream delivers)                 *)
(*   SClosed(mid)  the connection was closed / failed; mid = 1 iff a write *)
(*                 was in progress at that moment                          *)
(*   SEnd          end of observation: every write started on a still-open *)
(*                 connection has been let through                         *)
(* The machine keeps the not yet framed tail of the stream (sbuf) and      *)
(* takes complete size-prefixed requests off its head (the broker's view): *)
(*   C15.frameSize   a size prefix that cannot hold a request header, or   *)
(*                   (at SEnd) a request that was started and not completed*)
(*                   although the connection was not closed mid-write      *)
(*   C15.header      header not decodable / API key of no supplied kind    *)
(*   produce frames  every clause of KafkaWire!ReqCheck (body, message-set *)
(*                   size, message size, CRC, count, magic, acks, topic,   *)
(*                   partition, value, bytes) against ONE supplied produce *)
(*                   request, found by content (topic + payload list)      *)
(*   C15.supplied    a well-formed produce request on the wire is none of  *)
(*                   the supplied ones                                      *)
(*   C15.suppliedOnce a supplied request is on the wire at most once       *)
(*   metadata frames KafkaWire!HdrCheck; at most as many as were supplied  *)
(* Supplied produce requests are pairwise distinct in (topic, payloads)    *)
(* within a trace (harness.input).  Not judged here: which correlation id  *)
(* is chosen (C11), whether and when a supplied request is written at all  *)
(* (timeouts, C02/C12).                                                     *)
(***************************************************************************)
EXTENDS KafkaWire

VARIABLES sbuf,     \* bytes accepted by the connection that are not yet a complete request
          ssup,     \* supplied requests, in order: [api, topic, partition, acks, payloads, cid]
          sused,    \* indices of ssup already seen in a request on the wire
          sclosed   \* "open" | "closed" | "closedMid"
svars == <<sbuf, ssup, sused, sclosed>>

SInit == sbuf = <<>> /\ ssup = <<>> /\ sused = {} /\ sclosed = "open"

MinRequest == 10          \* api key, version, correlation id, client id length

Values(msgs) == [i \in DOMAIN msgs |-> msgs[i].value]

\* ------------------------------------------------------------ one complete request
\* f = size prefix + exactly that many bytes.  Returns [v, used].
RequestJudge(f, u) ==
  LET h == DecRequest(f)
      bad(c) == [v |-> c, used |-> u]
  IN
  IF ~h.ok THEN bad("C15.header")
  ELSE IF h.val.api = ProduceKey THEN
    LET b == DecProduce(SubSeq(f, h.next, Len(f))) IN
    IF ~b.ok /\ b.stage \in {"head", "topic"} THEN bad("C15.body")
    ELSE IF ~b.ok /\ b.stage = "setsize" THEN bad("C15.messageSetSize")
    ELSE IF ~b.ok THEN bad("C15.messageSize")
    ELSE IF \E i \in DOMAIN b.msgs : ~b.msgs[i].sizeOk THEN bad("C15.messageSize")
    ELSE IF \E i \in DOMAIN b.msgs : ~b.msgs[i].crcOk THEN bad("C15.crc")
    ELSE LET cand == {j \in DOMAIN ssup : /\ ssup[j].api = ProduceKey /\ ssup[j].topic = b.topic
                                          /\ ssup[j].payloads = Values(b.msgs)}
         IN IF cand = {} THEN bad("C15.supplied")
            ELSE LET j   == IF cand \ u # {} THEN CHOOSE x \in cand \ u : TRUE ELSE CHOOSE x \in cand : TRUE
                     chk == ReqCheck([topic |-> ssup[j].topic, partition |-> ssup[j].partition,
                                      acks |-> ssup[j].acks, payloads |-> ssup[j].payloads,
                                      corr |-> h.val.corr, cid |-> ssup[j].cid, frame |-> f,
                                      braised |-> "none", hraised |-> "none"])
                 IN IF chk # "ok" THEN bad(chk)
                    ELSE IF j \in u THEN bad("C15.suppliedOnce")
                    ELSE [v |-> "ok", used |-> u \cup {j}]
  ELSE IF h.val.api = MetadataKey THEN
    LET cand == {j \in DOMAIN ssup : ssup[j].api = MetadataKey} IN
    IF cand = {} THEN bad("C15.supplied")
    ELSE LET j   == IF cand \ u # {} THEN CHOOSE x \in cand \ u : TRUE ELSE CHOOSE x \in cand : TRUE
             chk == HdrCheck([api |-> MetadataKey, corr |-> h.val.corr, cid |-> ssup[j].cid, frame |-> f,
                              braised |-> "none", hraised |-> "none"])
         IN IF chk # "ok" THEN bad(chk)
            ELSE IF j \in u THEN bad("C15.suppliedOnce")
            ELSE [v |-> "ok", used |-> u \cup {j}]
  ELSE bad("C15.header")          \* the API key of no request that was supplied

\* ------------------------------------------------------------ framing of the stream
StreamStep(a, i) ==
  IF a.v # "ok" \/ Len(a.rest) < 4 THEN a
  ELSE LET size == RdI32(a.rest, 1) IN
    IF size < MinRequest THEN [a EXCEPT !.v = "C15.frameSize"]
    ELSE IF Len(a.rest) < 4 + size THEN a                     \* incomplete: more bytes may follow
    ELSE LET r == RequestJudge(SubSeq(a.rest, 1, 4 + size), a.used)
         IN [rest |-> SubSeq(a.rest, 5 + size, Len(a.rest)), used |-> r.used, v |-> r.v]

SParse(data) ==
  LET all == sbuf \o data
  IN FoldLeft(StreamStep, [rest |-> all, used |-> sused, v |-> "ok"], Iota((Len(all) \div (4 + MinRequest)) + 1))

\* ------------------------------------------------------------ events
SSupCheck(e) ==
  IF ~(IsBytes(e.topic) /\ IsBytes(e.cid) /\ \A i \in DOMAIN e.payloads : IsBytes(e.payloads[i])) THEN "harness.input"
  ELSE IF e.api \notin {ProduceKey, MetadataKey} THEN "harness.input"
  ELSE IF e.api = ProduceKey /\ \E j \in DOMAIN ssup : /\ ssup[j].api = ProduceKey /\ ssup[j].topic = e.topic
                                                      /\ ssup[j].payloads = e.payloads THEN "harness.input"
  ELSE "ok"
SSupUpd(e) ==
  /\ ssup' = Append(ssup, [api |-> e.api, topic |-> e.topic, partition |-> e.partition, acks |-> e.acks,
                           payloads |-> e.payloads, cid |-> e.cid])
  /\ UNCHANGED <<sbuf, sused, sclosed>>

\* p = SParse(data), computed once by the caller
SBytesCheckP(data, p) ==
  IF ~IsBytes(data) \/ Len(data) = 0 THEN "harness.input"
  ELSE IF sclosed # "open" THEN "harness.bytesAfterClose"
  ELSE p.v
SBytesUpdP(p) == sbuf' = p.rest /\ sused' = p.used /\ UNCHANGED <<ssup, sclosed>>
SBytesCheck(data) == SBytesCheckP(data, SParse(data))
SBytesUpd(data)   == SBytesUpdP(SParse(data))

SClosedCheck(mid) == IF mid \notin {0, 1} THEN "harness.input" ELSE "ok"
SClosedUpd(mid) ==
  /\ sclosed' = IF sclosed # "open" THEN sclosed ELSE IF mid = 1 THEN "closedMid" ELSE "closed"
  /\ UNCHANGED <<sbuf, ssup, sused>>

\* declared sizes match the bytes present: a request that was started is completed, unless the
\* connection was closed / failed in the middle of the write
SEndCheck == IF Len(sbuf) # 0 /\ sclosed # "closedMid" THEN "C15.frameSize" ELSE "ok"
SEndUpd   == UNCHANGED svars
=============================================================================
