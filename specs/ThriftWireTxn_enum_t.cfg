SPECIFICATION Spec
CONSTANTS
  MaxPayload = 2
  NTxn = 3
  Variants = {"varz", "raw"}
  Partial = {1, 3}
  ReopenOnStall = TRUE
INVARIANT NoViolation
INVARIANT Emit
CHECK_DEADLOCK FALSE
