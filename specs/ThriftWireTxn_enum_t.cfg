SPECIFICATION Spec
CONSTANTS
  MaxPayload = 2
  NTxn = 2
  Variants = {"varz", "raw"}
  Partial = {1, 2, 3}
  ReopenOnStall = TRUE
INVARIANT NoViolation
INVARIANT Emit
CHECK_DEADLOCK FALSE
