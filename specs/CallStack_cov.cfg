SPECIFICATION Spec
CONSTANTS
  Calls = {1, 2, 3}
  MaxT = 1
  Timeouts = {1, 2}
  Mux = FALSE
  FixPreOpen = TRUE
  MaxConns = 1
  QueueLen = 1
INVARIANT Once
INVARIANT NotEarly
INVARIANT OnTime
INVARIANT Completes
INVARIANT NoLateBytes
INVARIANT LoadConserved
INVARIANT PoolConserved
INVARIANT DiscardBeforeTick
CHECK_DEADLOCK FALSE
