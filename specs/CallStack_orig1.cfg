SPECIFICATION Spec
CONSTANTS
  Calls = {1, 2}
  MaxT = 4
  Timeouts = {1, 2}
  Mux = FALSE
  FixPreOpen = FALSE
  MaxConns = 1
  QueueLen = 1
INVARIANT NotEarly
CHECK_DEADLOCK FALSE
