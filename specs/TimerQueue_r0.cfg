SPECIFICATION Spec
CONSTANTS
  Ids = {1, 2, 3}
  Res = 0
  MaxT = 3
  NoPc = NoPc
INVARIANT NoViolation
INVARIANT WorkerAlive
INVARIANT FinalQuiet
INVARIANT Structural
CHECK_DEADLOCK FALSE
