SPECIFICATION Spec
CONSTANTS
  MaxPayload = 1
  NTxn = 2
  Variants = {"varz", "raw"}
  Partial = {1, 3}
  ReopenOnStall = FALSE
INVARIANT NoViolation
CHECK_DEADLOCK FALSE
