SPECIFICATION Spec
CONSTANTS
  MaxPayload = 2
  NTxn = 2
  Variants = {"varz", "raw"}
  Partial = {1, 2, 3, 4, 5}
  ReopenOnStall = FALSE
INVARIANT NoViolation
CHECK_DEADLOCK FALSE
