SPECIFICATION Spec
CONSTANTS
  Reqs = {1, 2, 3}
  FixSocket = FALSE
  FixReopen = FALSE
INVARIANT FailOnce
INVARIANT AfterFailure
INVARIANT OpenMeansUsable
CHECK_DEADLOCK FALSE
