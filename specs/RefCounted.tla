------------------------------ MODULE RefCounted ------------------------------
(***************************************************************************)
(* Code-shaped model of scales/sink.py RefCountedSink and                  *)
(* SharedSinkProvider (C16).                                               *)
(*                                                                         *)
(* SharedSinkProvider: cache is a WeakValueDictionary key -> RefCountedSink;*)
(* an entry lives exactly as long as some holder references the sink       *)
(* (CPython reference counting), modelled by `held` (holder -> sink, 0 =   *)
(* none).  CreateSink(key): cached sink if present, else create the        *)
(* underlying sink through the next provider, wrap it, cache it.           *)
(* RefCountedSink s: refc (_ref_count), ar (_open_ar is not None).  Open   *)
(* and Close run under an uncontended RLock without yielding: one action   *)
(* each.  Open: refc += 1; on 0 -> 1 call the underlying Open().  Close:   *)
(* no-op at refc = 0; else refc -= 1; on 1 -> 0 drop _open_ar and call the *)
(* underlying Close().  Sink s wraps underlying connection s (creation     *)
(* order).  Failures of the underlying connection do not touch this code   *)
(* and are explored by the drivers only.                                   *)
(* Actions: Get(h, k)  holder h (re)obtains a sink for key k from the      *)
(* provider (dropping what it held), HOpen(h), HClose(h), Drop(h).         *)
(* ShareAbs runs in lock-step on `abs`.                                    *)
(***************************************************************************)
EXTENDS ShareAbs

CONSTANTS Holders, Keys, MaxLen, MaxSinks

VARIABLES sinks, cache, held, n, abs, viol
vars == <<sinks, cache, held, n, abs, viol>>

E(e, c, s, h, k) == [e |-> e, c |-> c, r |-> 0, ok |-> TRUE, h |-> h, s |-> s, k |-> k]

Init ==
  /\ sinks = <<>>
  /\ cache = [k \in Keys |-> 0]
  /\ held = [h \in Holders |-> 0]
  /\ n = 0
  /\ abs = A0("refcounted")
  /\ viol = "ok"

Ghost(evs) ==
  LET f == EvFold(abs, "ok", evs) IN
  /\ abs' = f.a
  /\ viol' = IF viol = "ok" THEN f.chk ELSE viol

\* weak cache after holder h lets go of its sink
CacheAfterDrop(h) ==
  LET s == held[h] IN
  IF s # 0 /\ ~(\E h2 \in Holders \ {h} : held[h2] = s)
  THEN [cache EXCEPT ![sinks[s].key] = IF @ = s THEN 0 ELSE @]
  ELSE cache

Get(h, k) ==
  /\ n < MaxLen
  /\ LET c1 == CacheAfterDrop(h)
         dropEv == IF held[h] # 0 THEN <<E("Drop", 0, held[h], h, 0)>> ELSE <<>>
         hit == c1[k] # 0
         s == IF hit THEN c1[k] ELSE Len(sinks) + 1
     IN /\ hit \/ Len(sinks) < MaxSinks
        /\ sinks' = IF hit THEN sinks ELSE Append(sinks, [refc |-> 0, ar |-> FALSE, key |-> k])
        /\ cache' = [c1 EXCEPT ![k] = s]
        /\ held' = [held EXCEPT ![h] = s]
        /\ Ghost(dropEv \o (IF hit THEN <<>> ELSE <<E("Create", s, 0, 0, 0)>>) \o <<E("Key", 0, s, h, k)>>)
  /\ n' = n + 1

Drop(h) ==
  /\ n < MaxLen /\ held[h] # 0
  /\ cache' = CacheAfterDrop(h)
  /\ held' = [held EXCEPT ![h] = 0]
  /\ Ghost(<<E("Drop", 0, held[h], h, 0)>>)
  /\ n' = n + 1
  /\ UNCHANGED sinks

HOpen(h) ==
  /\ n < MaxLen /\ held[h] # 0
  /\ LET s == held[h]
         first == sinks[s].refc = 0
     IN /\ sinks' = [sinks EXCEPT ![s].refc = @ + 1, ![s].ar = IF first THEN TRUE ELSE @]
        /\ Ghost(<<E("Open", 0, s, h, 0)>> \o (IF first THEN <<E("UOpen", s, 0, 0, 0)>> ELSE <<>>))
  /\ n' = n + 1
  /\ UNCHANGED <<cache, held>>

HClose(h) ==
  /\ n < MaxLen /\ held[h] # 0
  /\ LET s == held[h]
         noop == sinks[s].refc = 0
         last == sinks[s].refc = 1
     IN /\ sinks' = IF noop THEN sinks
                    ELSE [sinks EXCEPT ![s].refc = @ - 1, ![s].ar = IF last THEN FALSE ELSE @]
        /\ Ghost(<<E("Close", 0, s, h, 0)>> \o (IF last THEN <<E("UClose", s, 0, 0, 0)>> ELSE <<>>))
  /\ n' = n + 1
  /\ UNCHANGED <<cache, held>>

Next == \E h \in Holders : \/ \E k \in Keys : Get(h, k)
                           \/ Drop(h) \/ HOpen(h) \/ HClose(h)

Spec == Init /\ [][Next]_vars

\* ------------------------------------------------------------------ properties
\* every state is quiescent (nothing is deferred in this component)
NoViolation == viol = "ok" /\ EvCheck(abs, E("Q", 0, 0, 0, 0)) = "ok"

Structural ==
  /\ \A k \in Keys : cache[k] # 0 => (sinks[cache[k]].key = k /\ \E h \in Holders : held[h] = cache[k])
  /\ \A s \in DOMAIN sinks : sinks[s].refc >= 0 /\ (sinks[s].ar = (sinks[s].refc > 0))
  /\ \A h \in Holders : held[h] # 0 => cache[sinks[held[h]].key] = held[h]
=============================================================================
