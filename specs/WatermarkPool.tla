---------------------------- MODULE WatermarkPool ----------------------------
(***************************************************************************)
(* Code-shaped model of scales/pool/watermark.py WatermarkPoolSink with    *)
(* PoolSink.AsyncProcessRequest/Response (pool/base.py) and the per-call   *)
(* ClientMessageSinkStack (sink.py), for C07.                              *)
(*                                                                         *)
(* The implementation state is ONE record `st`; every code segment (the    *)
(* code one greenlet runs between two yields) is a pure operator from a    *)
(* state record to a state record that also appends the observable events  *)
(* it produces to the field `evs`.  An action installs the new record      *)
(* (evs reset) and folds the events through the property-level machine     *)
(* PoolAbs on the ghost variable `abs`; `viol` keeps the first failing     *)
(* clause.                                                                 *)
(*                                                                         *)
(* One action per quantum of the gevent loop / environment event:          *)
(*  SpawnArr      a caller greenlet is spawned with a request (as the      *)
(*                dispatcher does); it runs later, FIFO.                    *)
(*  RunTask(imm)  head of the run queue:                                   *)
(*     ARR r   pool.AsyncProcessRequest: _Get (= _Dequeue, discarding      *)
(*             closed cached sinks; else create while size < max and park  *)
(*             in sink.Open().wait() -- unless the open result is already  *)
(*             complete, imm --; else queue while len(waiters)+1 <=        *)
(*             max_queue_len; else the max-waiters FailingMessageSink),    *)
(*             push the pool frame, forward.                               *)
(*     RES c   the notifier of c's open result resumes the parked _Get:    *)
(*             subscribe, push the pool frame (even on a stack a timeout   *)
(*             has drained meanwhile), forward (even if the open failed).  *)
(*     PQ c    _ProcessQueue(c) spawned by _Release.                       *)
(*  OpenDone(c, ok)  the environment completes c's open result.            *)
(*  Respond(r, k) the connection answers r: the stack is drained from the  *)
(*                top: pool frame -> _Release(c), then the caller's sink.  *)
(*  Timeout(r)    the caller's ClientTimeoutSink posts a TimeoutError      *)
(*                message to the top of r's stack: queued -> the pool      *)
(*                frame holds a QueuingMessageSink (release is a no-op,    *)
(*                the entry STAYS in _waiters with an empty stack);        *)
(*                lent -> _Release(c) although c is still busy; parked in  *)
(*                _Get -> only the caller's frames are drained.            *)
(*  Die(c)        c's state turns Closed by itself.                        *)
(*  CloseExt      the owner calls pool.Close().                            *)
(*  Reopen        the owner calls pool.Open() on the closed pool (as       *)
(*                ResurrectorSink.Open() does after its Close()): task     *)
(*                OPEN runs _OpenImpl.                                     *)
(*                                                                         *)
(* Quirks modelled as they are: Close() neither clears _cache nor          *)
(* _waiters nor touches _current_size; _Release on a closed pool only      *)
(* decrements; a released dead sink is not Close()d.  Three defects of the *)
(* original code are switchable so that both the unchanged and the         *)
(* repaired tree have a faithful model:                                    *)
(*  FixPQ   FALSE: _ProcessQueue pops one waiter and its stack frame; a    *)
(*          drained stack or an empty _waiters raises IndexError and the   *)
(*          greenlet dies holding the sink (st.leaked).  TRUE: it skips    *)
(*          drained waiters and, when none is left, _Release(sink).        *)
(*  FixDeq  FALSE: _Dequeue discards a closed cached sink without          *)
(*          decrementing _current_size.  TRUE: it decrements.              *)
(*  FixMaxW FALSE: FailingMessageSink(MaxWaitersError()) raises TypeError  *)
(*          when used: the caller's greenlet dies, nothing is delivered,   *)
(*          the pool frame stays on the stack.  TRUE: the error is         *)
(*          delivered at once.                                             *)
(***************************************************************************)
EXTENDS PoolAbs, SequencesExt

CONSTANTS MinS, MaxS, QS,     \* sets of min_watermark / max_watermark / max_queue_len values (Init chooses)
          NReq,               \* requests
          NConn,              \* connections that may be created (bound)
          MaxDie, MaxTmo,     \* bounds on Die (incl. failed opens) / Timeout events
          ExtClose,           \* BOOLEAN: owner-initiated Close() explored
          FixPQ, FixDeq, FixMaxW

VARIABLES st, viol
vars == <<st, abs, viol>>

MaxMaxW == CHOOSE m \in MaxS : \A n \in MaxS : n <= m
RAll == 1..(NReq + MaxMaxW)        \* regular requests 1..NReq, probe requests above
CAll == 1..(NConn + MaxMaxW)
Empty == [term |-> FALSE, frame |-> "none"]

Emit(s, e) == [s EXCEPT !.evs = Append(@, e)]

\* ---- pieces of watermark.py -------------------------------------------------------
\* _DiscardSink(c): unsubscribe, sink.Close()
Discard(s, c) == Emit([s EXCEPT !.cst[c] = "closed"], [e |-> "Closed", c |-> c])

\* FailingMessageSink(ServiceClosedError).AsyncProcessRequest(waiter...): posts the error to the
\* waiter's stack: drained stack -> nothing; else pool frame (release of the queuing sink: no-op),
\* then the caller's sink
FailWaiter(s, w) ==
  IF ~s.stk[w].term THEN s
  ELSE Emit([s EXCEPT !.stk[w] = Empty, !.ph[w] = "failedq"], [e |-> "Deliver", r |-> w, k |-> "closed"])

\* Close(): state, _FlushCache (cache not cleared), fail every entry of _waiters (not cleared)
CloseSeg(s) ==
  LET s1 == Emit([s EXCEPT !.pstate = "closed", !.wasClosed = TRUE], [e |-> "PState", pst |-> "closed"])
      s2 == FoldLeft(LAMBDA acc, c : Discard(acc, c), s1, s1.cache)
  IN FoldLeft(LAMBDA acc, w : FailWaiter(acc, w), s2, s2.waiters)

\* _Release(c) for a real sink
ReleaseSeg(s, c) ==
  IF s.pstate = "closed" THEN [s EXCEPT !.size = @ - 1]
  ELSE IF s.cst[c] \in {"dead", "closed"} THEN CloseSeg([s EXCEPT !.size = @ - 1])
  ELSE IF s.waiters # <<>> THEN [s EXCEPT !.runq = Append(@, <<"PQ", c>>)]
  ELSE IF s.size <= s.min THEN [s EXCEPT !.cache = Append(@, c)]
  ELSE Discard([s EXCEPT !.size = @ - 1], c)

\* sink.AsyncProcessRequest(...) on connection c
Forward(s, r, c) ==
  Emit([s EXCEPT !.infl[c] = @ \cup {r}, !.ph[r] = "lent", !.rc[r] = c],
       [e |-> "Start", r |-> r, c |-> c])

\* _Dequeue(): [s, c], c = 0 when nothing usable is cached
RECURSIVE Dequeue(_)
Dequeue(s) ==
  IF s.cache = <<>> THEN [s |-> s, c |-> 0]
  ELSE LET c == Head(s.cache)
           s1 == [s EXCEPT !.cache = Tail(@)]
       IN IF s.cst[c] \in {"opening", "open"} THEN [s |-> s1, c |-> c]
          ELSE Dequeue(Discard(IF FixDeq THEN [s1 EXCEPT !.size = @ - 1] ELSE s1, c))

\* the caller greenlet: PoolSink.AsyncProcessRequest up to its first yield (or its end)
ArrSeg(s0, r, imm) ==
  LET d == Dequeue(Emit(s0, [e |-> "Arrive", r |-> r]))
      s == d.s
  IN
  IF d.c # 0 THEN Forward([s EXCEPT !.stk[r] = [term |-> TRUE, frame |-> "C"]], r, d.c)
  ELSE IF s.size < s.max
  THEN LET c == s.nextc
           s1 == Emit([s EXCEPT !.size = @ + 1, !.nextc = @ + 1, !.cst[c] = "opening", !.rc[r] = c],
                      [e |-> "Create", c |-> c, r |-> r])
       IN IF imm
          THEN Forward(Emit([s1 EXCEPT !.cst[c] = "open", !.stk[r] = [term |-> TRUE, frame |-> "C"]],
                            [e |-> "Opened", c |-> c, ok |-> 1]), r, c)
          ELSE [s1 EXCEPT !.ph[r] = "opening", !.stk[r] = [term |-> TRUE, frame |-> "none"]]
  ELSE IF Len(s.waiters) + 1 > s.qlen
  THEN IF FixMaxW
       THEN Emit([s EXCEPT !.ph[r] = "done", !.stk[r] = Empty], [e |-> "Deliver", r |-> r, k |-> "maxw"])
       ELSE [s EXCEPT !.ph[r] = "stuck", !.stk[r] = [term |-> TRUE, frame |-> "F"]]
  ELSE [s EXCEPT !.waiters = Append(@, r), !.ph[r] = "queued", !.stk[r] = [term |-> TRUE, frame |-> "Q"]]

\* resumption of the _Get parked on c's open result
ResSeg(s, c) ==
  LET r == CHOOSE x \in RAll : s.ph[x] = "opening" /\ s.rc[x] = c
  IN Forward([s EXCEPT !.stk[r].frame = "C"], r, c)

\* _ProcessQueue(c)
RECURSIVE PQSeg(_, _)
PQSeg(s, c) ==
  IF s.waiters = <<>>
  THEN IF FixPQ THEN ReleaseSeg(s, c) ELSE [s EXCEPT !.leaked = @ \cup {c}]
  ELSE LET w == Head(s.waiters)
           s1 == [s EXCEPT !.waiters = Tail(@)]
       IN IF s.stk[w].frame = "none"
          THEN IF FixPQ THEN PQSeg(s1, c) ELSE [s1 EXCEPT !.leaked = @ \cup {c}]
          ELSE Forward([s1 EXCEPT !.stk[w].frame = "C"], w, c)

\* the connection holding r answers (k = "ok" | "err")
RespondSeg(s, r, k) ==
  LET c == s.rc[r]
      s1 == Emit([s EXCEPT !.infl[c] = @ \ {r}], [e |-> "Done", r |-> r, c |-> c, k |-> k])
      s2 == IF s1.stk[r].frame = "C" THEN ReleaseSeg([s1 EXCEPT !.stk[r].frame = "none"], c) ELSE s1
      s3 == IF s2.stk[r].term
            THEN Emit([s2 EXCEPT !.stk[r].term = FALSE], [e |-> "Deliver", r |-> r, k |-> k])
            ELSE s2
  IN [s3 EXCEPT !.ph[r] = IF @ = "lent" THEN "done" ELSE @]

\* ClientTimeoutSink._TimeoutHelper for r
TimeoutSeg(s, r) ==
  LET f == s.stk[r].frame
      s1 == Emit([s EXCEPT !.stk[r] = Empty, !.ntmo = @ + 1], [e |-> "TimedOut", r |-> r])
      s2 == IF f = "C" THEN ReleaseSeg(s1, s.rc[r]) ELSE s1
      s3 == Emit(s2, [e |-> "Deliver", r |-> r, k |-> "timeout"])
  IN [s3 EXCEPT !.ph[r] = CASE @ = "queued" -> "tmoq" [] @ = "lent" -> "tmol" [] @ = "stuck" -> "done" [] OTHER -> @]

\* pool.Open(): _Get (the first open succeeds at once), _Release, state Open
OpenSeg(s) ==
  LET c == s.nextc
      s1 == Emit(Emit([s EXCEPT !.size = 1, !.nextc = c + 1, !.cst[c] = "open", !.pstate = "idle"],
                      [e |-> "Create", c |-> c, r |-> 0]), [e |-> "Opened", c |-> c, ok |-> 1])
  IN [ReleaseSeg(s1, c) EXCEPT !.pstate = "open"]

\* pool.Open() on a pool that was closed (ResurrectorSink.Close()/Open() keep the pool object):
\* _OpenImpl = _Get (closed cached sinks are swept out; a sink is created while size < max, its
\* open completes at once here; else a queuing/failing sink whose release is a no-op), _Release
\* (the state is still Closed: only size - 1, the fresh sink is neither cached nor closed), state Open
ReopenSeg(s0) ==
  LET d == Dequeue(s0)
      s == d.s
      s2 == IF d.c # 0 THEN ReleaseSeg(s, d.c)
            ELSE IF s.size < s.max
            THEN LET c == s.nextc
                     s1 == Emit(Emit([s EXCEPT !.size = @ + 1, !.nextc = @ + 1, !.cst[c] = "open"],
                                     [e |-> "Create", c |-> c, r |-> 0]), [e |-> "Opened", c |-> c, ok |-> 1])
                 IN ReleaseSeg(s1, c)
            ELSE s
  IN [s2 EXCEPT !.pstate = "open"]

\* ---- the machine ----------------------------------------------------------------------
RunEvs(a, v, evs) ==
  FoldLeft(LAMBDA acc, e : IF acc.v # "ok" THEN acc
                           ELSE LET c == Chk(acc.a, e)
                                IN IF c = "ok" THEN [a |-> Upd(acc.a, e), v |-> "ok"]
                                   ELSE [a |-> acc.a, v |-> c],
           [a |-> a, v |-> v], evs)

Init0(mn, mx, ql) ==
  [min |-> mn, max |-> mx, qlen |-> ql, size |-> 0, cache |-> <<>>, waiters |-> <<>>, pstate |-> "idle",
   cst |-> [c \in CAll |-> "none"], infl |-> [c \in CAll |-> {}],
   ph |-> [r \in RAll |-> "none"], rc |-> [r \in RAll |-> 0], stk |-> [r \in RAll |-> Empty],
   runq |-> <<>>, nextc |-> 1, nextr |-> 1, leaked |-> {}, ndie |-> 0, ntmo |-> 0, wasClosed |-> FALSE,
   nopen |-> 0, evs |-> <<>>]

Init ==
  \E mn \in MinS, mx \in MaxS, ql \in QS :
    LET s == OpenSeg(Init0(mn, mx, ql))
        res == RunEvs(AInit0(mn, mx, ql), "ok", s.evs)
    IN st = [s EXCEPT !.evs = <<>>] /\ abs = res.a /\ viol = res.v

Apply(s) ==
  LET res == RunEvs(abs, viol, s.evs)
  IN st' = [s EXCEPT !.evs = <<>>] /\ abs' = res.a /\ viol' = res.v

SpawnArr ==
  /\ st.nextr <= NReq
  /\ Apply([st EXCEPT !.runq = Append(@, <<"ARR", st.nextr>>), !.nextr = @ + 1, !.ph[st.nextr] = "spawned"])

RunTask(imm) ==
  /\ st.runq # <<>>
  /\ LET t == Head(st.runq)
         s0 == [st EXCEPT !.runq = Tail(@)]
     IN CASE t[1] = "ARR" -> LET s == ArrSeg(s0, t[2], imm) IN s.nextc <= NConn + 1 /\ Apply(s)
          [] t[1] = "RES" -> ~imm /\ Apply(ResSeg(s0, t[2]))
          [] t[1] = "PQ" -> ~imm /\ Apply(PQSeg(s0, t[2]))
          [] t[1] = "OPEN" -> LET s == ReopenSeg(s0) IN imm /\ s.nextc <= NConn + 1 /\ Apply(s)

OpenDone(c, ok) ==
  /\ st.cst[c] = "opening"
  /\ ok \/ st.ndie < MaxDie          \* a failed open counts as a death (bound)
  /\ Apply(Emit([st EXCEPT !.cst[c] = IF ok THEN "open" ELSE "dead", !.runq = Append(@, <<"RES", c>>),
                          !.ndie = IF ok THEN @ ELSE @ + 1],
                [e |-> "Opened", c |-> c, ok |-> IF ok THEN 1 ELSE 0]))

Respond(r, k) ==
  /\ st.rc[r] # 0 /\ r \in st.infl[st.rc[r]]
  /\ Apply(RespondSeg(st, r, k))

Timeout(r) ==
  /\ st.ntmo < MaxTmo
  /\ r <= NReq /\ st.stk[r].term
  /\ Apply(TimeoutSeg(st, r))

Die(c) ==
  /\ st.ndie < MaxDie
  /\ st.cst[c] = "open"
  /\ Apply(Emit([st EXCEPT !.cst[c] = "dead", !.ndie = @ + 1], [e |-> "Die", c |-> c]))

CloseExt ==
  /\ ExtClose /\ st.pstate = "open" /\ ~st.wasClosed
  /\ Apply(CloseSeg(Emit(st, [e |-> "PoolClose"])))

\* the owner opens the closed pool again: Open() spawns _OpenImpl (SafeLink)
Reopen ==
  /\ ExtClose /\ st.pstate = "closed" /\ st.nopen < 1
  /\ \A i \in DOMAIN st.runq : st.runq[i][1] # "OPEN"
  /\ Apply(Emit([st EXCEPT !.runq = Append(@, <<"OPEN", 0>>), !.nopen = @ + 1], [e |-> "PoolOpen"]))

Next == \/ SpawnArr
        \/ \E imm \in BOOLEAN : RunTask(imm)
        \/ \E c \in 1..NConn, ok \in BOOLEAN : OpenDone(c, ok)
        \/ \E r \in 1..NReq, k \in {"ok", "err"} : Respond(r, k)
        \/ \E r \in 1..NReq : Timeout(r)
        \/ \E c \in 1..NConn : Die(c)
        \/ CloseExt
        \/ Reopen

Spec == Init /\ [][Next]_vars

\* ------------------------------------------------------------------ properties
NoViolation == viol = "ok"

Quiet == st.runq = <<>>
\* traffic has stopped: nothing queued to run, no request on any connection, no open pending
Stopped == /\ Quiet
           /\ \A c \in CAll : st.infl[c] = {} /\ st.cst[c] # "opening"

QuietOK == (Quiet /\ viol = "ok") => Chk(abs, [e |-> "Q", pst |-> st.pstate]) = "ok"
StopOK == (Stopped /\ viol = "ok") => Chk(abs, [e |-> "Stop", pst |-> st.pstate]) = "ok"

\* the probe burst: max_watermark fresh requests, opens complete at once, nothing else runs
ProbeSeg(s) ==
  LET ids == [i \in 1..s.max |-> NReq + i]
      s1 == FoldLeft(LAMBDA acc, p : ArrSeg(acc, p, TRUE), s, ids)
  IN Emit(s1, [e |-> "Probe", lo |-> NReq + 1, hi |-> NReq + s.max])
ProbeOK == (Stopped /\ viol = "ok" /\ st.pstate # "closed")
             => RunEvs(Upd(abs, [e |-> "Stop", pst |-> st.pstate]), "ok", ProbeSeg(st).evs).v = "ok"

\* structural invariants of the (repaired) code
SizeAccounting ==   \* _current_size = sinks lent + parked in Open + in the hands of a spawned _ProcessQueue + cached
                    \* (also while closed and after a re-open: closed sinks stay cached until _Dequeue sweeps them)
    st.size = Cardinality({r \in RAll : st.ph[r] = "opening"})
              + Cardinality({r \in RAll : st.stk[r].frame = "C"})
              + Cardinality({i \in DOMAIN st.runq : st.runq[i][1] = "PQ"})
              + Len(st.cache)
CacheXorWaiters == ~st.wasClosed => (st.cache = <<>> \/ st.waiters = <<>>)
NothingLeaked == st.leaked = {}
SizeBound == st.size <= st.max /\ st.size >= 0
=============================================================================
