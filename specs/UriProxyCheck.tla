---------------------------- MODULE UriProxyCheck ----------------------------
(***************************************************************************)
(* C20 -- bounded self-consistency of the reference functions of UriProxy  *)
(* and the proxy-class cache as a small state machine.                     *)
(*                                                                         *)
(* One state per probe: Init picks a probe from a bounded domain, the      *)
(* invariants state the algebraic laws.  The laws:                         *)
(*   SplitJoin      Join(Split(s, c), c) = s and no part contains c        *)
(*   TcpRoundTrip   ParseTcp(Format(eps)) = eps (order preserved)          *)
(*   ZkRoundTrip    ParseZk(Format(hosts, path, ep)) = the same triple     *)
(*   OtherRejected  a URI whose scheme is neither tcp nor zk is neither    *)
(*   NamesLaw       ProxyNames doubles the user methods; Target inverts it *)
(* The cache machine: CreateServiceClient keyed by interface identity.     *)
(* Two interfaces with the same name but different methods must get        *)
(* different classes, the same interface the same class: invariant         *)
(* CacheFaithful (the class handed out for i exposes ProxyNames of i).     *)
(* Interface 3 extends interface 1.  LookupInherited = TRUE is the design  *)
(* "keep the class on the interface and find it with an attribute lookup   *)
(* that follows inheritance": 3 asked after 1 is handed 1's class          *)
(* (UriProxyCheck_inherit.cfg must violate CacheFaithful).                 *)
(* The provider a tcp:// URI yields is a value: every query answers the    *)
(* listed endpoints in order (ProviderIsValue).  OneShot = TRUE is the     *)
(* design "keep a one-shot iterator, hand out list(it)": only the first    *)
(* query is right (UriProxyCheck_oneshot.cfg must violate it).             *)
(***************************************************************************)
EXTENDS UriProxy

CONSTANTS MaxLen,           \* longest probe string
          Probes,           \* kinds of probes explored
          LookupInherited,  \* cache lookup follows inheritance
          OneShot           \* the static provider keeps a one-shot iterator

\* alphabet: "a", "1", ",", ":", "/", "#", "_"
Alpha == {97, 49, 44, 58, 47, 35, 95}
RECURSIVE Strings(_)
Strings(n) == IF n = 0 THEN {<<>>} ELSE LET S == Strings(n - 1) IN S \cup {Append(s, c) : s \in {x \in S : Len(x) = n - 1}, c \in Alpha}

Hosts == {<<97>>, <<97, 49>>, <<97, 95, 97>>}            \* "a", "a1", "a_a"
Ports == {<<49>>, <<49, 49>>, <<49, 49, 49, 49, 49>>}    \* "1", "11", "11111"
Servers == {h \o <<Colon>> \o p : h \in Hosts, p \in Ports}
ServerLists == {<<a>> : a \in Servers} \cup {<<a, b>> : a \in Servers, b \in Servers}
               \cup {<<a, b, a>> : a \in Servers, b \in Servers}
Paths == {<<>>, <<Slash>>, <<Slash, 97>>, <<Slash, 97, Slash, 49, 95>>}
Eps == {<<>>, <<97>>, <<97, 49, 95>>}
Names == {<<97>>, <<US, 97>>, <<97, US>>, <<US, US, 97>>, <<97, US, US>>, <<US, US, 97, US, US>>,
          <<US>>, <<US, US>>, <<97>> \o AsyncSuffix, <<97, 49>>}

VARIABLES probe, cache, made, handed, answers
pvars == <<probe, avars, cache, made, handed, answers>>

\* interface identities 1..3; 1 and 2 share a name (the key a broken cache might use)
IfaceName(i) == IF i = 3 THEN "B" ELSE "A"
IfaceMethods(i) == CASE i = 1 -> {<<97>>} [] i = 2 -> {<<97, 49>>, <<US, 97>>} [] i = 3 -> {<<97>>, <<97, US, US>>}
\* interface 3 extends interface 1 (0: no base interface)
Parent(i) == IF i = 3 THEN 1 ELSE 0

PInit ==
  /\ probe \in {p \in [k : {"str"}, s : Strings(MaxLen), c : {44, 58}]
             \cup [k : {"tcp"}, l : ServerLists, tail : {<<>>, <<Slash>>}]
             \cup [k : {"zk"}, l : ServerLists, p : Paths, ep : Eps]
             \cup [k : {"other"}, sch : {<<>>, <<116, 99>>, <<116, 99, 112, 112>>, <<107, 122>>, <<104, 116, 116, 112>>},
                   l : {x \in ServerLists : Len(x) = 1}]
             \cup [k : {"names"}, ns : SUBSET Names]
             \cup [k : {"cache"}]
             \cup [k : {"prov"}, l : ServerLists] : p.k \in Probes}
  /\ AInit
  /\ cache = <<>>       \* interface identity -> class id
  /\ made = <<>>        \* class id -> method names the class was generated from
  /\ handed = <<>>      \* interface identity -> class id last handed out for it
  /\ answers = <<>>     \* "prov": what the provider answered, query by query

\* CreateServiceClient(i): look up by identity (LookupInherited: or find a base interface's entry), else
\* build a fresh class
Found(i) == IF i \in DOMAIN cache THEN cache[i]
            ELSE IF LookupInherited /\ Parent(i) \in DOMAIN cache THEN cache[Parent(i)]
            ELSE 0
PutIn(f, k, v) == [j \in DOMAIN f \cup {k} |-> IF j = k THEN v ELSE f[j]]
Create(i) ==
  /\ probe.k = "cache"
  /\ Len(made) < 4
  /\ IF Found(i) # 0
       THEN handed' = PutIn(handed, i, Found(i)) /\ UNCHANGED <<cache, made>>
       ELSE /\ made' = Append(made, IfaceMethods(i))
            /\ cache' = PutIn(cache, i, Len(made) + 1)
            /\ handed' = PutIn(handed, i, Len(made) + 1)
  /\ UNCHANGED <<probe, avars, answers>>

\* GetServers() on the provider parsed from tcp://<probe.l>
Want == [i \in DOMAIN probe.l |-> HostPort(probe.l[i])]
Query ==
  /\ probe.k = "prov"
  /\ Len(answers) < 3
  /\ answers' = Append(answers, IF OneShot /\ answers # <<>> THEN <<>> ELSE Want)
  /\ UNCHANGED <<probe, avars, cache, made, handed>>

PNext == (\E i \in 1..3 : Create(i)) \/ Query
PSpec == PInit /\ [][PNext]_pvars

FormatServers(l) == Join(l, Comma)

SplitJoin ==
  probe.k = "str" =>
    LET parts == Split(probe.s, probe.c) IN
    /\ Join(parts, probe.c) = probe.s
    /\ \A i \in DOMAIN parts : IndexOf(parts[i], probe.c) = 0
    /\ Len(parts) = 1 + Cardinality({i \in DOMAIN probe.s : probe.s[i] = probe.c})

TcpRoundTrip ==
  probe.k = "tcp" =>
    LET u == Tcp \o SchemeSep \o FormatServers(probe.l) \o probe.tail
        want == [i \in DOMAIN probe.l |-> HostPort(probe.l[i])]
    IN /\ UriDomain(u) /\ HasScheme(u) /\ Scheme(u) = Tcp
       /\ ParseTcp(AfterScheme(u)) = want
       /\ \A i \in DOMAIN want : want[i].h \in Hosts /\ want[i].p \in {1, 11, 11111}

ZkRoundTrip ==
  probe.k = "zk" =>
    LET u == Zk \o SchemeSep \o FormatServers(probe.l) \o probe.p
             \o (IF probe.ep = <<>> THEN <<>> ELSE <<Hash>> \o probe.ep)
        z == ParseZk(AfterScheme(u))
    IN /\ UriDomain(u) /\ Scheme(u) = Zk
       /\ z.hosts = {HostPort(probe.l[i]) : i \in DOMAIN probe.l}
       /\ z.path = probe.p
       /\ z.hasEp = (IF probe.ep = <<>> THEN 0 ELSE 1)
       /\ z.ep = probe.ep

OtherRejected ==
  probe.k = "other" =>
    LET u == IF probe.sch = <<>> THEN FormatServers(probe.l) ELSE probe.sch \o SchemeSep \o FormatServers(probe.l)
    IN UriDomain(u) /\ ~(HasScheme(u) /\ Scheme(u) \in {Tcp, Zk})

NamesLaw ==
  probe.k = "names" =>
    LET U == UserMethods(probe.ns) P == PublicMethods(probe.ns) IN
    /\ P \subseteq U
    /\ NoCollision(probe.ns) =>
         /\ Cardinality(ProxyNames(U)) = 2 * Cardinality(U)
         /\ \A m \in U : /\ Target(probe.ns, m) = [ok |-> TRUE, m |-> m, form |-> "sync"]
                         /\ Target(probe.ns, m \o AsyncSuffix) = [ok |-> TRUE, m |-> m, form |-> "async"]
    /\ <<US, US, 97, US, US>> \notin U /\ <<US, US, 97>> \notin U /\ <<97, US, US>> \notin U
    /\ (<<US, 97>> \in probe.ns => <<US, 97>> \in U /\ <<US, 97>> \notin P)
    /\ (<<97, US>> \in probe.ns => <<97, US>> \in P)

CacheFaithful ==
  probe.k = "cache" =>
    /\ \A i \in DOMAIN cache : made[cache[i]] = IfaceMethods(i)
    /\ \A i, j \in DOMAIN cache : (i # j) => cache[i] # cache[j]
    /\ \A i \in DOMAIN handed : made[handed[i]] = IfaceMethods(i)

ProviderIsValue ==
  probe.k = "prov" =>
    \A q \in DOMAIN answers : answers[q] = ParseTcp(FormatServers(probe.l))
=============================================================================
