---------------------------- MODULE MuxTransportQ ----------------------------
(***************************************************************************)
(* MuxTransport.tla re-scheduled for replay on the real transport          *)
(* (direction A).  The driver of the real code controls two kinds of       *)
(* steps: caller steps (Request, Timeout: plain synchronous calls, any     *)
(* number of them before the transport's greenlets run) and peer steps     *)
(* (PeerAnswer, PeerStray, Fault: bytes fed to the socket when the         *)
(* transport is quiescent).  Everything else (send loop, receive loop,     *)
(* reply greenlets, timeout_proc) happens when the driver lets the event   *)
(* loop run to quiescence.  `ph` = "ext": the driver is in control;        *)
(* "int": the loop is running; the stuttering step Quiesced hands control  *)
(* back.  From such a batch the closure under the internal actions is      *)
(* confluent on the compared projection (SendStep and TimeoutProc touch    *)
(* disjoint requests; a single peer frame is processed alone), so ONE      *)
(* simulated behaviour is what the real transport must follow.             *)
(***************************************************************************)
EXTENDS MuxTransport

VARIABLE ph
qvars == <<vars, ph>>

IntEnabled == (st = "Open" /\ sendq # <<>>) \/ (st = "Open" /\ inbound # <<>>) \/ replyq # <<>> \/ tproc # {}
Internal == SendStep \/ RecvStep \/ ProcessReply \/ (\E r \in Reqs : TimeoutProc(r))

QInit == Init /\ ph = "ext"

Caller == ph = "ext" /\ (\E r \in Reqs : Request(r) \/ Timeout(r)) /\ UNCHANGED ph
PeerStep == /\ ph = "ext" /\ ~IntEnabled
            /\ (Fault \/ \E tag \in 0..MaxTag : PeerAnswer(tag) \/ PeerStray(tag))
            /\ ph' = "int"
Run == IntEnabled /\ Internal /\ ph' = "int"
Quiesced == ph = "int" /\ ~IntEnabled /\ ph' = "ext" /\ UNCHANGED vars

QNext == Caller \/ PeerStep \/ Run \/ Quiesced
QSpec == QInit /\ [][QNext]_qvars
=============================================================================
