SPECIFICATION Spec
CONSTANTS
  Reqs = {1, 2, 3, 4}
  FixSocket = TRUE
  FixReopen = TRUE
INVARIANT FailOnce
INVARIANT AfterFailure
INVARIANT OpenMeansUsable
CHECK_DEADLOCK FALSE
