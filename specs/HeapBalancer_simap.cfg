SPECIFICATION Spec
CONSTANTS
  MaxNodes = 7
  Eps = {1,2,3,4,5}
  InitN = 4
  MaxLoad = 2
  P = 100
  Repaired = TRUE
  Faults = TRUE
  Membership = TRUE
  TrackLate = TRUE
  Noise = TRUE
  Aperture = TRUE
  MinSize = 2
  StaleSize = FALSE
  Light = FALSE
INVARIANT NoViolation
INVARIANT HeapOrder
INVARIANT Structural
CHECK_DEADLOCK FALSE
