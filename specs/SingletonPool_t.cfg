SPECIFICATION Spec
CONSTANTS
  MaxOpen = 2
  MaxClose = 2
  MaxReq = 2
  MaxConn = 3
  MaxFail = 2
  EagerRelease = FALSE
CONSTRAINT Bound
INVARIANT NoViolation
INVARIANT Structural
CHECK_DEADLOCK FALSE
