SPECIFICATION Spec
CONSTANTS
  MinS = {0, 1}
  MaxS = {1, 2}
  QS = {1, 2}
  NReq = 2
  NConn = 3
  MaxDie = 1
  MaxTmo = 0
  ExtClose = FALSE
  FixPQ = TRUE
  FixDeq = FALSE
  FixMaxW = TRUE
INVARIANT ProbeOK
CHECK_DEADLOCK FALSE
