SPECIFICATION Spec
CONSTANTS
  Eps = {e1, e2}
  MaxNotes = 2
  None = None
  Calls = {c1, c2}
  JoinWaits = TRUE
  PopFirst = TRUE
  BadClose = {1, 2, 3, 5, 8}
  GateBySubscription = TRUE
SYMMETRY Perms
INVARIANT NoViolation
INVARIANT QuietOK
INVARIANT Structural
INVARIANT NoDeadDispatch
CHECK_DEADLOCK FALSE
