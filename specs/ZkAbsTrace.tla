----------------------------- MODULE ZkAbsTrace -----------------------------
(* Batched validation of implementation traces against ZkAbs (C19).         *)
EXTENDS ZkAbs, Json, IOUtils

Traces == ndJsonDeserialize(IOEnv.TRACE_FILE)

VARIABLES tid, l, verdict
tvars == <<tid, l, verdict>>

TEv == Traces[tid].ev

TInit == /\ tid \in 1..Len(Traces)
         /\ l = 1
         /\ verdict = "ok"
         /\ AInit

TNext == /\ verdict = "ok"
         /\ l <= Len(TEv)
         /\ LET e == TEv[l]
                chk == ACheck(ast, e)
            IN IF chk = "ok"
               THEN ast' = AStep(ast, e) /\ l' = l + 1 /\ verdict' = "ok"
               ELSE verdict' = chk /\ l' = l /\ UNCHANGED avars
         /\ UNCHANGED tid

TSpec == TInit /\ [][TNext]_<<avars, tvars>>

Done == verdict # "ok" \/ l > Len(TEv)
Report == Done => PrintT(<<"V", tid, l - 1, verdict>>)
=============================================================================
