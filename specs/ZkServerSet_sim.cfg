SPECIFICATION Spec
CONSTANTS
  Names = {1, 2, 3}
  NValues = 2
  MaxEnv = 9
  MaxInc = 3
  MaxRaise = 1
  MaxBlock = 1
CHECK_DEADLOCK FALSE
