---------------------------- MODULE HeapBalancer ----------------------------
(***************************************************************************)
(* Code-shaped model of scales/loadbalancer/heap.py HeapBalancerSink       *)
(* (C03, C04; the membership half of C05 at heap level).                   *)
(*                                                                         *)
(* There is no yield inside _heap_lock, so every API entry is one action:  *)
(*   Dispatch(pick, nst)  (parameters: aperture only, see below)           *)
(*                   _AsyncProcessRequestImpl: __Get (downq scan: drop     *)
(*                   discarded nodes, resurrect nodes whose channel is     *)
(*                   Open with load -= Penalty + FixUp; take heap[1]; if   *)
(*                   it is not Open and not yet marked down: push on the   *)
(*                   downq, load += Penalty, FixDown(1), loop), load += 1, *)
(*                   FixDown(index), push the put-closure                  *)
(*   Put(n, j, kind) completion (reply / error / timeout drain / fault: all *)
(*                   the same to the balancer) of a request held by node n: *)
(*                   the balancer's frame is popped from the sink stack and *)
(*                   PutWrapper runs __Put with its four branches; j is the *)
(*                   value of random.randint(1, size) of the idle           *)
(*                   re-insertion; kind = "timeout" leaves a late arrival   *)
(*   LateArrive(n)   a late reply for a request whose stack was already    *)
(*                   drained: the stack is empty, nothing runs             *)
(*   AddSink(e) / JoinDup(e)        on_join -> __AddServer -> _AddSink     *)
(*   RemoveSink(e, pick, nst) / LeaveUnknown(e)  on_leave ->               *)
(*                   __RemoveServer ->                                     *)
(*                   _RemoveSink (swap with the last, FixDown, pop,        *)
(*                   index = -1, Close() iff load = Idle or load >= 0)     *)
(*   ChanFlip(n, st) environment: a channel goes down / comes back         *)
(* Data structures as in the code: 1-based array `heap` (position = index, *)
(* order = (load, index)), load with Idle = 0 and Penalty = P, `downq`     *)
(* (head first).  Quirk kept as is: a channel that is Idle or Busy is "not *)
(* Open" for __Get (states other than 2 behave like 4 here).               *)
(*                                                                         *)
(* Aperture = TRUE models ApertureBalancerSink on top of the same heap      *)
(* (aperture.py with load-based resizing and jitter configured off:        *)
(* min_load below 0, max_load unreachable, jitter 0 - the only changes of  *)
(* the aperture are the ones forced by members going down or leaving):     *)
(*   _AddSink      the endpoint joins the heap if fewer than MinSize heap  *)
(*                 members have a channel that is not Closed, else it is   *)
(*                 held in `idle`                                          *)
(*   _OnNodeDown   called by __Get IN THE MIDDLE of a dispatch, right after *)
(*                 the root was marked down: unless that channel is Idle, *)
(*                 _TryExpandAperture moves a random idle endpoint (action *)
(*                 parameter `pick`; the least one if pick is not idle)    *)
(*                 into the heap: new node at the end + FixUp; its channel *)
(*                 is Open at once or still opening (parameter `nst`)      *)
(*   _RemoveSink   heap removal as above, then _TryExpandAperture; an idle *)
(*                 endpoint is just forgotten                              *)
(* Channel opens always succeed in this model (an Idle channel only goes   *)
(* Open); the open-failure path (_OnOpenNodeComplete -> _OnNodeDown from a *)
(* deferred callback) is exercised on the real class only.                 *)
(* StaleSize = TRUE is the variant of _AsyncProcessRequestImpl that reads  *)
(* _size once before __Get and re-uses it as the bound of the FixDown      *)
(* after the pick (kept as a counterexample generator: the aperture grows  *)
(* inside __Get, the sift-down ignores the new last slot, and the next     *)
(* request goes to a member with 1 outstanding although an open aperture   *)
(* member has 0: C03.openLeast).                                           *)
(*                                                                         *)
(* CONSTANT Repaired selects the variant of __Put / _RemoveSink:           *)
(*   FALSE  heap.py as found: after Swap(i, size) only FixDown(i, size-1)  *)
(*   TRUE   with fixes/C03-heap-fixup.diff: additionally FixUp(i) when     *)
(*          i # size                                                       *)
(* The property-level machine BalancerAbs runs in lock-step on the ghost   *)
(* variable `abs`, fed with the same event records the harness logs (each  *)
(* step ends with End{projection} and, everything being synchronous, a     *)
(* quiescent point Q{heap endpoints}); `viol` records the first failing    *)
(* clause.                                                                 *)
(***************************************************************************)
EXTENDS BalancerAbs

CONSTANTS MaxNodes,   \* node objects that may ever be created
          Eps,        \* endpoint names
          InitN,      \* endpoints 1..InitN are members (and open) initially
          MaxLoad,    \* bound on outstanding requests per node
          P,          \* Penalty; larger than any load
          Repaired,   \* see above
          Faults,     \* channels may flip; new channels start not-open
          Membership, \* joins and leaves happen
          TrackLate,  \* timeouts leave a late arrival behind
          Noise,      \* duplicate joins and leaves of unknown endpoints happen (no-ops for the heap)
          Aperture,   \* FALSE: HeapBalancerSink; TRUE: ApertureBalancerSink (resizing and jitter off)
          MinSize,    \* aperture: min_size
          StaleSize,  \* see above
          Light       \* TRUE: no End / Q events (the projection clauses are then covered by the
                      \* invariant Structural only); for the large dispatch/completion configs

\* without End events the down marks are never reported to the Abs machine, which the
\* close clauses of a leave need
ASSUME Light => ~Membership

VARIABLES heap, load, ns, downq, chan, epn, late, neg, idle, abs, viol
ivars == <<heap, load, ns, downq, chan, epn, late, neg, idle>>
vars == <<ivars, abs, viol>>

NodeIds == 1..MaxNodes
CLOSED == 4
IDLE == 1
Size == Len(heap)
Created == {n \in NodeIds : ns[n] # "free"}
CurEps == {epn[heap[i]] : i \in DOMAIN heap}
Members == CurEps \cup idle      \* endpoints the balancer holds: heap nodes + (aperture) idle endpoints
PosOf(hp, n) == CHOOSE i \in DOMAIN hp : hp[i] = n

\* ------------------------------------------------------------------ class Heap
\* Node.__lt__ on (load, index); index = array position
Lt(hp, ld, i, j) == ld[hp[i]] < ld[hp[j]] \/ (ld[hp[i]] = ld[hp[j]] /\ i < j)
Swap(hp, i, j) == [hp EXCEPT ![i] = hp[j], ![j] = hp[i]]

RECURSIVE FixUp(_, _, _)
FixUp(hp, ld, i) ==
  IF i # 1 /\ Lt(hp, ld, i, i \div 2) THEN FixUp(Swap(hp, i, i \div 2), ld, i \div 2) ELSE hp

RECURSIVE FixDown(_, _, _, _)
FixDown(hp, ld, i, j) ==
  IF j < i * 2 THEN hp
  ELSE LET m == IF j = i * 2 \/ Lt(hp, ld, 2 * i, 2 * i + 1) THEN 2 * i ELSE 2 * i + 1
       IN IF Lt(hp, ld, m, i) THEN FixDown(Swap(hp, i, m), ld, m, j) ELSE hp

\* the segment shared by __Put (idle branch) and _RemoveSink
SwapOut(hp, ld, i, sz) ==
  LET h1 == Swap(hp, i, sz)
      h2 == FixDown(h1, ld, i, sz - 1)
  IN IF Repaired /\ i # sz THEN FixUp(h2, ld, i) ELSE h2

\* ------------------------------------------------------------------ __Get
\* The working state s carries everything a dispatch may change: heap, load, downq and - for the
\* aperture, which creates nodes inside __Get - ns, chan, epn, idle, the Create events (evs) and
\* `over` (the model ran out of node objects: the step is then not taken).
ScanStep(s, n) ==
  IF s.ns[n] = "rm" THEN s                                   \* discarded node: unlink
  ELSE IF s.chan[n] = OPEN
  THEN LET ld == [s.load EXCEPT ![n] = @ - P]                \* resurrected
       IN [s EXCEPT !.load = ld, !.heap = FixUp(s.heap, ld, PosOf(s.heap, n))]
  ELSE [s EXCEPT !.downq = Append(@, n)]                     \* no change
Scan(s) == FoldLeft(ScanStep, [s EXCEPT !.downq = <<>>], s.downq)

MinOf(S) == CHOOSE x \in S : \A y \in S : x <= y

\* HeapBalancerSink._AddSink: new node with load Idle at the end of the array, FixUp
AppendNode(s, e, nst) ==
  LET n == Cardinality({x \in NodeIds : s.ns[x] # "free"}) + 1
  IN IF n > MaxNodes THEN [s EXCEPT !.over = TRUE]
     ELSE LET ld == [s.load EXCEPT ![n] = 0]
          IN [s EXCEPT !.load = ld,
                       !.ns[n] = "in",
                       !.epn[n] = e,
                       !.chan[n] = nst,
                       !.heap = FixUp(Append(s.heap, n), ld, Len(s.heap) + 1),
                       !.evs = Append(@, [e |-> "Create", n |-> n, ep |-> e])]

\* ApertureBalancerSink._TryExpandAperture: random.choice over the idle endpoints
Expand(s, pick, nst) ==
  IF s.idle = {} THEN s
  ELSE LET e == IF pick \in s.idle THEN pick ELSE MinOf(s.idle)
       IN AppendNode([s EXCEPT !.idle = @ \ {e}], e, nst)

RECURSIVE GetLoop(_, _, _)
GetLoop(s, pick, nst) ==
  LET s1 == Scan(s)
      n == s1.heap[1]
  IN IF s1.chan[n] = OPEN \/ s1.load[n] >= P THEN s1
     ELSE LET ld == [s1.load EXCEPT ![n] = @ + P]            \* node is now down
              s2 == [s1 EXCEPT !.heap = FixDown(s1.heap, ld, 1, Len(s1.heap)), !.load = ld,
                               !.downq = <<n>> \o s1.downq]
              \* _OnNodeDown: the aperture replaces a member whose channel is not merely Idle
              s3 == IF Aperture /\ s1.chan[n] # IDLE THEN Expand(s2, pick, nst) ELSE s2
          IN IF s3.over THEN s3 ELSE GetLoop(s3, pick, nst)

PickOK(pick) == IF idle = {} THEN pick = MinOf(IF Aperture THEN Eps ELSE {0}) ELSE pick \in idle

Work0 == [heap |-> heap, load |-> load, downq |-> downq, ns |-> ns, chan |-> chan, epn |-> epn,
          idle |-> idle, evs |-> <<>>, over |-> FALSE]

\* ------------------------------------------------------------------ events for the Abs machine
Eff(ld, n) == IF ld[n] >= P THEN ld[n] - P ELSE ld[n]
ProjOf(ld, nss, ng) ==
  LET cr == {n \in NodeIds : nss[n] # "free"}
      sq == SetToSeq(cr)
  IN [e |-> "End", hasL |-> 1, neg |-> ng,
      L |-> [i \in DOMAIN sq |-> <<sq[i], Eff(ld, sq[i]), IF nss[sq[i]] = "rm" THEN 1 ELSE 0,
                                   IF ld[sq[i]] >= P THEN 1 ELSE 0>>]]
\* every action is synchronous, so every step ends quiescent: End, then Q with the endpoints
\* of the heap after the step
QOf(hp, ep, idl) == [e |-> "Q", hasE |-> 1, elig |-> [i \in DOMAIN hp |-> ep[hp[i]]] \o SetToSeq(idl)]
StepEndI(ld, nss, ng, hp, ep, idl) == IF Light THEN <<>> ELSE <<ProjOf(ld, nss, ng), QOf(hp, ep, idl)>>
StepEnd(ld, nss, ng, hp, ep) == StepEndI(ld, nss, ng, hp, ep, idle)
UOf == [i \in DOMAIN heap |-> <<heap[i], chan[heap[i]], abs.node[heap[i]].out>>]

Emit(evs) ==
  LET r == Run(abs, evs)
  IN /\ abs' = r.a
     /\ viol' = IF viol = "ok" THEN r.v ELSE viol

\* ------------------------------------------------------------------ actions
Dispatch(pick, nst) ==
  IF Size = 0
  THEN /\ PickOK(pick) /\ nst = OPEN
       /\ Emit(<<[e |-> "Disp", r |-> 0, n |-> -1, err |-> "nomembers", st |-> 0, fresh |-> 0,
                  hasU |-> 1, U |-> <<>>]>> \o StepEnd(load, ns, neg, heap, epn))
       /\ UNCHANGED ivars
  ELSE LET g == GetLoop(Work0, pick, nst)
           n == g.heap[1]
           ld == [g.load EXCEPT ![n] = @ + 1]
           \* Heap.FixDown(self._heap, n.index, self._size); StaleSize: the bound was read before __Get
           hp == FixDown(g.heap, ld, 1, IF StaleSize THEN Size ELSE Len(g.heap))
       IN /\ PickOK(pick)
          /\ ~g.over
          /\ (IF n \in Nodes(abs) THEN abs.node[n].out ELSE 0) < MaxLoad
          /\ heap' = hp
          /\ load' = ld
          /\ downq' = g.downq
          /\ ns' = g.ns
          /\ chan' = g.chan
          /\ epn' = g.epn
          /\ idle' = g.idle
          /\ Emit(g.evs
                  \o <<[e |-> "Disp", r |-> 0, n |-> n, err |-> "none", st |-> g.chan[n],
                        fresh |-> IF ns[n] = "free" THEN 1 ELSE 0, hasU |-> 1, U |-> UOf]>>
                  \o StepEndI(ld, g.ns, neg, hp, g.epn, g.idle))
          /\ UNCHANGED <<late, neg>>

Put(n, j, kind) ==
  /\ ns[n] # "free" /\ abs.node[n].out > 0
  /\ kind = "reply" \/ TrackLate
  /\ j <= Size \/ j = 1
  /\ LET raw == load[n] - 1
         below == raw < 0                                    \* 'Decrementing load below Zero'
         l1 == IF below THEN 0 ELSE raw
         ld == [load EXCEPT ![n] = l1]
         ng == IF below THEN neg + 1 ELSE neg
         closes == ns[n] = "rm" /\ l1 = 0
         idleBranch == ns[n] = "in" /\ l1 = 0 /\ Size > 1
         hp == IF ns[n] = "rm" THEN heap
               ELSE IF idleBranch
               THEN LET h2 == SwapOut(heap, ld, PosOf(heap, n), Size)
                        h3 == Swap(h2, j, Size)
                        h4 == FixUp(h3, ld, j)
                    IN FixUp(h4, ld, Size)
               ELSE FixUp(heap, ld, PosOf(heap, n))
     IN /\ (idleBranch \/ j = 1)
        /\ heap' = hp
        /\ load' = ld
        /\ neg' = ng
        /\ chan' = IF closes THEN [chan EXCEPT ![n] = CLOSED] ELSE chan
        /\ late' = IF TrackLate /\ kind = "timeout" THEN [late EXCEPT ![n] = 1] ELSE late
        /\ Emit(<<[e |-> "Comp", r |-> 0, n |-> n, kind |-> kind]>>
                \o (IF closes THEN <<[e |-> "CloseSeen", n |-> n]>> ELSE <<>>)
                \o StepEnd(ld, ns, ng, hp, epn))
        /\ UNCHANGED <<ns, downq, epn, idle>>

LateArrive(n) ==
  /\ TrackLate /\ late[n] = 1
  /\ late' = [late EXCEPT ![n] = 0]
  /\ Emit(<<[e |-> "Late", r |-> 0, n |-> n]>> \o StepEnd(load, ns, neg, heap, epn))
  /\ UNCHANGED <<heap, load, ns, downq, chan, epn, neg, idle>>

\* number of heap members whose channel is_open (state <= Busy, i.e. not Closed)
Healthy == Cardinality({i \in DOMAIN heap : chan[heap[i]] # CLOSED})

AddSink(e) ==
  /\ Membership /\ e \notin Members
  /\ IF Aperture /\ Healthy >= MinSize
     THEN \* ApertureBalancerSink._AddSink: enough healthy members, the endpoint is held idle
          /\ idle' = idle \cup {e}
          /\ Emit(<<[e |-> "Join", ep |-> e], [e |-> "JoinDone", ep |-> e]>>
                  \o StepEndI(load, ns, neg, heap, epn, idle \cup {e}))
          /\ UNCHANGED <<heap, load, ns, downq, chan, epn, late, neg>>
     ELSE /\ Cardinality(Created) < MaxNodes
          /\ LET g == AppendNode(Work0, e, IF Faults THEN (IF Aperture THEN IDLE ELSE CLOSED) ELSE OPEN)
             IN /\ heap' = g.heap
                /\ load' = g.load
                /\ ns' = g.ns
                /\ epn' = g.epn
                /\ chan' = g.chan
                /\ Emit(<<[e |-> "Join", ep |-> e]>> \o g.evs \o <<[e |-> "JoinDone", ep |-> e]>>
                        \o StepEnd(g.load, g.ns, neg, g.heap, g.epn))
                /\ UNCHANGED <<downq, late, neg, idle>>

JoinDup(e) ==
  /\ Membership /\ Noise /\ e \in Members
  /\ Emit(<<[e |-> "Join", ep |-> e], [e |-> "JoinDone", ep |-> e]>> \o StepEnd(load, ns, neg, heap, epn))
  /\ UNCHANGED ivars

RemoveSink(e, pick, nst) ==
  /\ Membership /\ e \in Members
  /\ IF e \in idle
     THEN \* ApertureBalancerSink._RemoveSink of an endpoint held idle: no node, just forgotten
          /\ pick = e /\ nst = OPEN
          /\ idle' = idle \ {e}
          /\ Emit(<<[e |-> "Leave", ep |-> e], [e |-> "LeaveDone", ep |-> e]>>
                  \o StepEndI(load, ns, neg, heap, epn, idle \ {e}))
          /\ UNCHANGED <<heap, load, ns, downq, chan, epn, late, neg>>
     ELSE LET n == CHOOSE m \in NodeIds : ns[m] = "in" /\ epn[m] = e
              closes == load[n] = 0 \/ load[n] >= P
              hp == SubSeq(SwapOut(heap, load, PosOf(heap, n), Size), 1, Size - 1)
              w == [Work0 EXCEPT !.heap = hp, !.ns[n] = "rm",
                                 !.chan[n] = CLOSED]     \* never read again for a discarded node
              \* ApertureBalancerSink._RemoveSink: the departed member is replaced from the idle set
              g == IF Aperture THEN Expand(w, pick, nst) ELSE w
          IN /\ PickOK(pick)
             /\ ~g.over
             /\ heap' = g.heap
             /\ load' = g.load
             /\ ns' = g.ns
             /\ chan' = g.chan
             /\ epn' = g.epn
             /\ idle' = g.idle
             /\ Emit(<<[e |-> "Leave", ep |-> e]>>
                     \o (IF closes THEN <<[e |-> "CloseSeen", n |-> n]>> ELSE <<>>)
                     \o g.evs
                     \o <<[e |-> "LeaveDone", ep |-> e]>> \o StepEndI(g.load, g.ns, neg, g.heap, g.epn, g.idle))
             /\ UNCHANGED <<downq, late, neg>>

LeaveUnknown(e) ==
  /\ Membership /\ Noise /\ e \notin Members
  /\ Emit(<<[e |-> "Leave", ep |-> e], [e |-> "LeaveDone", ep |-> e]>> \o StepEnd(load, ns, neg, heap, epn))
  /\ UNCHANGED ivars

ChanFlip(n, st) ==
  /\ Faults /\ ns[n] = "in" /\ chan[n] # st
  /\ chan[n] = IDLE => st = OPEN          \* a pending Open() completes successfully
  /\ chan' = [chan EXCEPT ![n] = st]
  /\ UNCHANGED <<heap, load, ns, downq, epn, late, neg, idle, abs, viol>>

\* the aperture admits the first MinSize endpoints (none of them Closed), the others are held idle
InHeap0 == IF Aperture /\ MinSize < InitN THEN MinSize ELSE InitN

Init ==
  /\ heap = [i \in 1..InHeap0 |-> i]
  /\ load = [n \in NodeIds |-> 0]
  /\ ns = [n \in NodeIds |-> IF n <= InHeap0 THEN "in" ELSE "free"]
  /\ downq = <<>>
  /\ chan = [n \in NodeIds |-> IF n <= InHeap0 THEN OPEN ELSE CLOSED]
  /\ epn = [n \in NodeIds |-> IF n <= InHeap0 THEN n ELSE 0]
  /\ late = [n \in NodeIds |-> 0]
  /\ neg = 0
  /\ idle = {e \in 1..InitN : e > InHeap0}
  /\ abs = [AInit0(IF Aperture THEN "aperture" ELSE "heap", 1..InitN)
              EXCEPT !.loaded = TRUE, !.node = [n \in 1..InHeap0 |-> NewNode(n)]]
  /\ viol = "ok"

\* random.choice of the first expansion of a step (later ones in the same step take the least idle
\* endpoint); PickOK keeps one representative when there is nothing to choose from
Picks == IF Aperture THEN Eps ELSE {0}
NewSts == IF Aperture /\ Faults THEN {OPEN, IDLE} ELSE {OPEN}

Next ==
  \/ \E pick \in Picks, nst \in NewSts : Dispatch(pick, nst)
  \/ \E n \in NodeIds, j \in 1..MaxNodes, k \in {"reply", "timeout"} : Put(n, j, k)
  \/ \E n \in NodeIds : LateArrive(n)
  \/ \E e \in Eps : AddSink(e) \/ JoinDup(e) \/ LeaveUnknown(e)
  \/ \E e \in Eps, pick \in Picks, nst \in NewSts : RemoveSink(e, pick, nst)
  \/ \E n \in NodeIds, st \in {OPEN, CLOSED} : ChanFlip(n, st)

Spec == Init /\ [][Next]_vars

\* ------------------------------------------------------------------ properties
NoViolation == viol = "ok"

\* heap order w.r.t. (load, index): no child is less than its parent
HeapOrder == \A i \in 2..Size : ~Lt(heap, load, i, i \div 2)

Structural ==
  /\ \A i, k \in DOMAIN heap : i # k => heap[i] # heap[k]
  /\ {heap[i] : i \in DOMAIN heap} = {n \in NodeIds : ns[n] = "in"}
  \* every member marked down is on the downq, exactly once
  /\ \A n \in NodeIds : (ns[n] = "in" /\ load[n] >= P) =>
        Cardinality({i \in DOMAIN downq : downq[i] = n}) = 1
  /\ \A i \in DOMAIN downq : ns[downq[i]] = "rm" \/ load[downq[i]] >= P
  \* the invariant of DESIGN 5/C04
  /\ \A n \in Created : Eff(load, n) = abs.node[n].out
  /\ neg = 0
  \* the balancer holds exactly the server set: heap endpoints + idle endpoints, disjoint
  /\ idle \cap CurEps = {}
  /\ Members = abs.S
  /\ ~Aperture => idle = {}
=============================================================================
