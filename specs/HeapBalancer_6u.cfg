SPECIFICATION Spec
CONSTANTS
  MaxNodes = 6
  Eps = {1,2,3,4,5,6}
  InitN = 6
  MaxLoad = 2
  P = 100
  Repaired = FALSE
  Faults = FALSE
  Membership = FALSE
  TrackLate = FALSE
  Noise = TRUE
  Aperture = FALSE
  MinSize = 1
  StaleSize = FALSE
  Light = TRUE
INVARIANT NoViolation
CHECK_DEADLOCK FALSE
