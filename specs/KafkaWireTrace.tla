---------------------------- MODULE KafkaWireTrace ----------------------------
(* Batched validation of recorded pairs against KafkaWire (C15): (input, request  *)
(* frame) pairs from the real serializer + header builder, (broker bytes,        *)
(* decoded result) pairs from the real deserializer, and routing records from   *)
(* the real transport.  One trace = a handful of independent records; the first  *)
(* failing clause is the verdict of the trace.                                   *)
(*                                                                               *)
(* "Late reply" traces (events LReq / LReply / LDone / LEnd) are histories of    *)
(* one live connection judged by the KafkaCorrAbs machine: the byte-level part   *)
(* is done here (the request frame is decoded and judged by ReqCheck / HdrCheck, *)
(* the correlation id is the one found in the frame by the spec's decoder, the   *)
(* broker's reply bytes are decoded by the spec's decoder and compared with what *)
(* the caller was given), the routing clauses are KafkaCorrAbs's.                *)
(*                                                                               *)
(* "Stream" traces (events SSup / SBytes / SClosed / SEnd) are the byte stream   *)
(* one live connection accepted, framed and judged request by request by the    *)
(* KafkaStreamAbs machine (which uses ReqCheck / HdrCheck / DecRequest).         *)
EXTENDS KafkaStreamAbs, KafkaCorrAbs, Json, IOUtils

Traces == ndJsonDeserialize(IOEnv.TRACE_FILE)

VARIABLES tid, l, verdict
tvars == <<tid, l, verdict>>

Ev == Traces[tid].ev

TInit == /\ tid \in 1..Len(Traces)
         /\ l = 1
         /\ verdict = "ok"
         /\ AInit
         /\ LInit
         /\ SInit

\* ---- late-reply events: bytes -> KafkaCorrAbs
\* LReq: e = [r, api, topic, partition, acks, payloads, corr, cid, frame, sent, braised, hraised]
\* frame = the bytes the client wrote while the request was being issued (sent = 0: none, and nothing raised:
\* there is no request to judge)
LReqEvCheck(e) ==
  IF LReqCheck(e.r) # "ok" THEN LReqCheck(e.r)
  ELSE IF e.sent = 0 /\ e.braised = "none" /\ e.hraised = "none" THEN "ok"
  ELSE IF e.api = ProduceKey THEN ReqCheck(e)
  ELSE HdrCheck(e)
FrameCorr(f) == LET h == DecRequest(f) IN IF h.ok THEN h.val.corr ELSE -1
LReqEvUpd(e) == LReqUpd(e.r, e.api, FrameCorr(e.frame))

\* LReply: e = [w, api, bytes]   (bytes: the message the broker encoded, without the size prefix)
ReplyDec(api, bytes) == IF api = ProduceKey THEN DecProduceResponse(bytes) ELSE DecMetadataResponse(bytes)
LReplyEvCheck(e) ==
  IF ~IsBytes(e.bytes) \/ ~ReplyDec(e.api, e.bytes).ok THEN "harness.brokerBytes"
  ELSE LReplyCheck(e.w, ReplyDec(e.api, e.bytes).val.corr)
LReplyEvUpd(e) == LReplyUpd(e.w, e.api, ReplyDec(e.api, e.bytes).val.corr, e.bytes, e.t)

\* LDone: e = [r, api, raised, out, brokers, topics]: what the caller of r was given.
\* A reply matches if, decoded by the spec as the kind of response the request expects, it is exactly that.
RespMatches(rep, e) ==
  /\ rep.api = e.api
  /\ IF e.api = ProduceKey
     THEN PRespCheck([bytes |-> rep.c, raised |-> "none", out |-> e.out]) = "ok"
     ELSE MRespCheck([bytes |-> rep.c, raised |-> "none", brokers |-> e.brokers, topics |-> e.topics]) = "ok"
Matching(e) == IF e.raised # "none" THEN {} ELSE {k \in DOMAIN lrep : RespMatches(lrep[k], e)}
LDoneEvCheck(e) == LDoneCheck(e.r, e.raised, Matching(e), e.t)
LDoneEvUpd(e)   == LDoneUpd(e.r, e.raised, Matching(e))

\* LWire: e = [r, topic, partition, acks, payloads, corr, cid, frame, braised, hraised]: the broker has received
\* this frame completely; the harness found request r in it (0: none); ReqCheck judges it against r's inputs
LWireEvCheck(e) == IF LWireCheck(e.r) # "ok" THEN LWireCheck(e.r) ELSE ReqCheck(e)
LWireEvUpd(e)   == LWireUpd(e.r, FrameCorr(e.frame))

IsLate(e) == e.e \in {"LReq", "LWire", "LReply", "LDone", "LEnd"}
IsStream(e) == e.e \in {"SSup", "SBytes", "SClosed", "SEnd"}
\* the framing of an SBytes event is evaluated once per step (p below)
NoParse == [rest |-> <<>>, used |-> {}, v |-> "ok"]

CheckOfP(e, p) ==
  CASE e.e = "Req"   -> ReqCheck(e)
    [] e.e = "ReqR"  -> ReqRCheck(e)
    [] e.e = "Hdr"   -> HdrCheck(e)
    [] e.e = "PResp" -> PRespCheck(e)
    [] e.e = "MResp" -> MRespCheck(e)
    [] e.e = "Route" -> RouteCheck(e)
    [] e.e = "LReq"   -> LReqEvCheck(e)
    [] e.e = "LWire"  -> LWireEvCheck(e)
    [] e.e = "LReply" -> LReplyEvCheck(e)
    [] e.e = "LDone"  -> LDoneEvCheck(e)
    [] e.e = "LEnd"   -> LEndCheck(e.unread)
    [] e.e = "SSup"    -> SSupCheck(e)
    [] e.e = "SBytes"  -> SBytesCheckP(e.data, p)
    [] e.e = "SClosed" -> SClosedCheck(e.mid)
    [] e.e = "SEnd"    -> SEndCheck
    [] OTHER -> "harness.unknownEvent"

LUpdOf(e) ==
  CASE e.e = "LReq"   -> LReqEvUpd(e)
    [] e.e = "LWire"  -> LWireEvUpd(e)
    [] e.e = "LReply" -> LReplyEvUpd(e)
    [] e.e = "LDone"  -> LDoneEvUpd(e)
    [] e.e = "LEnd"   -> LEndUpd

SUpdOfP(e, p) ==
  CASE e.e = "SSup"    -> SSupUpd(e)
    [] e.e = "SBytes"  -> SBytesUpdP(p)
    [] e.e = "SClosed" -> SClosedUpd(e.mid)
    [] e.e = "SEnd"    -> SEndUpd

TNext == /\ verdict = "ok"
         /\ l <= Len(Ev)
         /\ LET e == Ev[l]
                p == IF e.e = "SBytes" /\ IsBytes(e.data) THEN SParse(e.data) ELSE NoParse
                chk == CheckOfP(e, p)
            IN IF chk = "ok"
               THEN /\ AUpd /\ l' = l + 1 /\ verdict' = "ok"
                    /\ IF IsLate(e) THEN LUpdOf(e) ELSE UNCHANGED lvars
                    /\ IF IsStream(e) THEN SUpdOfP(e, p) ELSE UNCHANGED svars
               ELSE verdict' = chk /\ l' = l /\ UNCHANGED <<avars, lvars, svars>>
         /\ UNCHANGED tid

TSpec == TInit /\ [][TNext]_<<avars, lvars, svars, tvars>>

Done == verdict # "ok" \/ l > Len(Ev)
Report == Done => PrintT(<<"V", tid, l - 1, verdict>>)
=============================================================================
