---------------------------- MODULE KafkaWireTrace ----------------------------
(* Batched validation of recorded pairs against KafkaWire (C15): (input, request  *)
(* frame) pairs from the real serializer + header builder, (broker bytes,        *)
(* decoded result) pairs from the real deserializer, and routing records from   *)
(* the real transport.  One trace = a handful of independent records; the first  *)
(* failing clause is the verdict of the trace.                                   *)
EXTENDS KafkaWire, Json, IOUtils

Traces == ndJsonDeserialize(IOEnv.TRACE_FILE)

VARIABLES tid, l, verdict
tvars == <<tid, l, verdict>>

Ev == Traces[tid].ev

TInit == /\ tid \in 1..Len(Traces)
         /\ l = 1
         /\ verdict = "ok"
         /\ AInit

CheckOf(e) ==
  CASE e.e = "Req"   -> ReqCheck(e)
    [] e.e = "ReqR"  -> ReqRCheck(e)
    [] e.e = "Hdr"   -> HdrCheck(e)
    [] e.e = "PResp" -> PRespCheck(e)
    [] e.e = "MResp" -> MRespCheck(e)
    [] e.e = "Route" -> RouteCheck(e)
    [] OTHER -> "harness.unknownEvent"

TNext == /\ verdict = "ok"
         /\ l <= Len(Ev)
         /\ LET e == Ev[l]
                chk == CheckOf(e)
            IN IF chk = "ok"
               THEN AUpd /\ l' = l + 1 /\ verdict' = "ok"
               ELSE verdict' = chk /\ l' = l /\ UNCHANGED avars
         /\ UNCHANGED tid

TSpec == TInit /\ [][TNext]_<<avars, tvars>>

Done == verdict # "ok" \/ l > Len(Ev)
Report == Done => PrintT(<<"V", tid, l - 1, verdict>>)
=============================================================================
