SPECIFICATION Spec
CONSTANTS
  Names = {1}
  NValues = 1
  MaxEnv = 10
  MaxInc = 4
  MaxRaise = 0
  MaxBlock = 0
INVARIANT NoViolation
INVARIANT Structural
INVARIANT Bounded
VIEW View
CHECK_DEADLOCK FALSE
