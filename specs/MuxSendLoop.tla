---------------------------- MODULE MuxSendLoop ----------------------------
(***************************************************************************)
(* C13, writer side of a ThriftMux connection -- code-shaped model of      *)
(*   scales/mux/sink.py        MuxSocketTransportSink.AsyncProcessRequest, *)
(*                             _SendLoop, _HandleTimeout                   *)
(*   scales/thriftmux/sink.py  ThriftMuxMessageSerializerSink              *)
(*                             .AsyncProcessRequest, _PingLoop,            *)
(*                             _SendPingMessage, _OnTimeout                *)
(*   scales/scales_socket.py   ScalesSocket.write (loop over partial sends)*)
(* with the stream machine of MuxStreamAbs embedded in lock-step on ghost  *)
(* variables (Sup at the caller, Bytes at every chunk the socket accepts,  *)
(* Closed at shutdown); frames are real bytes of the MuxWire reference.    *)
(*                                                                         *)
(* Greenlets and their code segments (one action per segment between two   *)
(* yield points; `run` names the greenlet that is on the CPU, nothing else *)
(* moves until it yields):                                                 *)
(*   caller m     Issue(m): marshal into a buffer, then, if the transport  *)
(*                is open, frame it and put it on the send queue; else     *)
(*                park in _open_result.wait();  Resume(m): after the open, *)
(*                frame the buffer and put it on the queue                 *)
(*   send loop    WriterWake / WriterLoop (queue.get, _HandleTimeout) /    *)
(*                WriterSend (one socket.send inside ScalesSocket.write):  *)
(*                the only writer of the socket                            *)
(*   ping loop    PingDue: the pre-built Tping frame is put on the queue   *)
(*   timeout      Expire(m): the deadline event of m is signalled; if m is *)
(*                in transit a Tdiscarded is put on the queue; if m is     *)
(*                still queued the send loop drops it when it gets there   *)
(*   peer         Drain(n): the peer reads, the socket accepts n more      *)
(*                bytes; a blocked sender is woken once the free space     *)
(*                reaches Lowat;  Fault: the connection fails              *)
(* Variant selects the design:                                             *)
(*   "asis"       the code as it is                                        *)
(*   "sharedBuf"  the serializer sink marshals every call into one shared  *)
(*                scratch buffer (seeded C13-B): a caller parked in        *)
(*                _open_result.wait() frames whatever is in it afterwards  *)
(*   "pingDirect" _SendPingMessage writes the Tping frame to the socket    *)
(*                itself (seeded C13-C): a second writer                   *)
(*   "abandon"    the send loop gives up a blocked write at the message's  *)
(*                deadline (seeded C13-D)                                  *)
(*   "sharedDiscard" _OnTimeout patches the tag into one prebuilt          *)
(*                Tdiscarded frame and queues that object (seeded C13-E):  *)
(*                a second timeout before the first is written changes it  *)
(* Invariants: WholeFramesInOrder (the delivered stream is the             *)
(* concatenation of the supplied frames in the order their writes began,   *)
(* all complete but possibly the one being written), AbsAccepts (the       *)
(* property-level stream machine accepts every step and every quiescent    *)
(* point).  Both hold for "asis"; TLC returns counterexamples for the      *)
(* four seeded designs.                                                     *)
(***************************************************************************)
EXTENDS MuxStreamAbs

CONSTANTS Calls,      \* call ids 1..n (tag of call m is m + 1, as the tag pool hands them out)
          HasDl,      \* calls that carry a deadline
          MaxPings,   \* periodic pings
          Rooms,      \* initial free space of the socket send buffer
          Drains,     \* amounts the peer may read at a time
          Cap,        \* size of the send buffer
          Lowat,      \* write low-water mark: free space at which a blocked sender is woken
          Variant

VARIABLES opened, cstate, scratch, dframe, dframe, queue, w, pw, run, room, expired, transit, pings, closed,
          started,    \* ghost: the frames whose write was begun, as supplied, in that order
          wire,       \* ghost: every byte the socket accepted
          viol        \* ghost: first clause of MuxStreamAbs that failed
cvars == <<opened, cstate, scratch, dframe, dframe, queue, w, pw, run, room, expired, transit, pings, closed>>
vars  == <<cvars, started, wire, viol, svars, accepted>>

Min2(a, b) == IF a < b THEN a ELSE b
Tag(m)    == m + 1
DispFrame(m, content) == TdispatchFrame(Tag(m), <<>>, <<content>>)     \* no contexts; the Thrift call is one byte
DiscFrame(m)          == TdiscardedFrame(0, Tag(m), <<67>>)            \* _CreateDiscardMessage: tag 0, a reason
PingFrame             == TpingFrame(1)
NoItem   == [kind |-> "none", m |-> 0, bytes |-> <<>>, want |-> <<>>]
Item(kind, m, bytes, want) == [kind |-> kind, m |-> m, bytes |-> bytes, want |-> want]

Init ==
  /\ SInit /\ accepted = 0
  /\ opened = FALSE
  /\ cstate = [m \in Calls |-> "new"]
  /\ scratch = 0
  /\ dframe = TdiscardedFrame(0, 0, <<67>>)     \* "sharedDiscard": the prebuilt Tdiscarded frame
  /\ queue = <<>>
  /\ w = [st |-> "get", item |-> NoItem, off |-> 0]
  /\ pw = [st |-> "idle", off |-> 0]
  /\ run = "none"
  /\ room \in Rooms
  /\ expired = {} /\ transit = {} /\ pings = 0 /\ closed = FALSE
  /\ started = <<>> /\ wire = <<>> /\ viol = "ok"

Quiet == run = "none" /\ ~closed          \* no greenlet is on the CPU: any greenlet may be scheduled

\* ------------------------------------------------------------ ghost plumbing
Accept(chunk) ==      \* the socket accepted these bytes
  /\ wire' = wire \o chunk
  /\ room' = room - Len(chunk)
  /\ viol' = IF viol # "ok" THEN viol ELSE BytesCheck(chunk)
  /\ BytesUpd(chunk)

Shutdown(mid) ==      \* _Shutdown: socket closed, greenlets killed
  /\ closed' = TRUE /\ run' = "none"
  /\ viol' = IF viol # "ok" THEN viol ELSE ClosedCheck(mid)
  /\ ClosedUpd(mid)

\* ------------------------------------------------------------ open, callers
\* The initial Tping/Rping handshake is over: _open_result is set, parked callers become runnable.
OpenDone ==
  /\ Quiet /\ ~opened
  /\ opened' = TRUE
  /\ UNCHANGED <<cstate, scratch, dframe, queue, w, pw, run, room, expired, transit, pings, closed, started, wire, viol,
                 svars, accepted>>

\* what the transport frames for call m: the contents of the buffer it was handed
Content(m, scr) == IF Variant = "sharedBuf" THEN scr ELSE m

Enqueue(q, m, scr) == Append(q, Item("disp", m, DispFrame(m, Content(m, scr)), DispFrame(m, m)))

\* ThriftMuxMessageSerializerSink.AsyncProcessRequest + MuxSocketTransportSink.AsyncProcessRequest
Issue(m) ==
  /\ Quiet /\ cstate[m] = "new"
  /\ viol' = IF viol # "ok" THEN viol ELSE SupCheck(<<>>, <<m>>)
  /\ SupUpd(<<>>, <<m>>)
  /\ scratch' = IF Variant = "sharedBuf" THEN m ELSE scratch       \* buf.seek(0); buf.truncate(); Marshal
  /\ IF opened
     THEN /\ queue' = Enqueue(queue, m, m)                          \* no yield between Marshal and put
          /\ cstate' = [cstate EXCEPT ![m] = "queued"]
     ELSE /\ cstate' = [cstate EXCEPT ![m] = "parked"]              \* self._open_result.wait()
          /\ UNCHANGED queue
  /\ UNCHANGED <<opened, dframe, w, pw, run, room, expired, transit, pings, closed, started, wire, accepted>>

\* ... data_len = stream.tell(); payload = header + stream.getvalue(); self._send_queue.put(...)
Resume(m) ==
  /\ Quiet /\ opened /\ cstate[m] = "parked"
  /\ queue' = Enqueue(queue, m, scratch)
  /\ cstate' = [cstate EXCEPT ![m] = "queued"]
  /\ UNCHANGED <<opened, scratch, dframe, w, pw, run, room, expired, transit, pings, closed, started, wire, viol,
                 svars, accepted>>

\* ------------------------------------------------------------ the send loop
WriterWake ==
  /\ Quiet
  /\ \/ w.st = "get" /\ queue # <<>> /\ w' = [w EXCEPT !.st = "loop"]
     \/ w.st = "blocked" /\ room >= Lowat /\ w' = [w EXCEPT !.st = "send"]
  /\ run' = "w"
  /\ UNCHANGED <<opened, cstate, scratch, dframe, queue, pw, room, expired, transit, pings, closed, started, wire, viol,
                 svars, accepted>>

\* payload, dct = self._send_queue.get(); if self._HandleTimeout(dct): continue
WriterLoop ==
  /\ run = "w" /\ w.st = "loop"
  /\ IF queue = <<>>
     THEN /\ w' = [w EXCEPT !.st = "get"] /\ run' = "none"            \* blocks in get()
          /\ UNCHANGED <<queue, transit, started>>
     ELSE LET it == Head(queue) IN
          /\ queue' = Tail(queue)
          /\ IF it.kind = "disp" /\ it.m \in expired
             THEN UNCHANGED <<w, transit, started>>                   \* timed out in the queue: never written
             ELSE /\ w' = [st |-> "send", item |-> it, off |-> 0]
                  /\ transit' = IF it.kind = "disp" /\ it.m \in HasDl THEN transit \cup {it.m} ELSE transit
                  /\ started' = Append(started, it.want)
          /\ UNCHANGED run
  /\ UNCHANGED <<opened, cstate, scratch, dframe, pw, room, expired, pings, closed, wire, viol, svars, accepted>>

\* what the send loop hands to the socket for a queue entry: the entry's own bytes, or, for the
\* "sharedDiscard" design, whatever the one prebuilt Tdiscarded frame holds at that moment
ItemBytes(it) == IF Variant = "sharedDiscard" /\ it.kind = "disc" THEN dframe ELSE it.bytes

\* one handle.send(buff) of ScalesSocket.write
WriterSend ==
  /\ run = "w" /\ w.st = "send"
  /\ IF room > 0
     THEN LET bytes == ItemBytes(w.item)
              k     == Min2(room, Len(bytes) - w.off) IN
          /\ Accept(SubSeq(bytes, w.off + 1, w.off + k))
          /\ w' = IF w.off + k = Len(bytes) THEN [st |-> "loop", item |-> NoItem, off |-> 0]
                  ELSE [w EXCEPT !.off = w.off + k]
          /\ UNCHANGED <<run, closed>>
     ELSE IF pw.st = "blocked"
     THEN /\ Shutdown(1)                        \* gevent: ConcurrentObjectUseError -> _Shutdown(e)
          /\ UNCHANGED <<w, wire, room>>
     ELSE /\ w' = [w EXCEPT !.st = "blocked"] /\ run' = "none"
          /\ UNCHANGED <<wire, room, viol, closed, svars>>
  /\ UNCHANGED <<opened, cstate, scratch, dframe, queue, pw, expired, transit, pings, started, accepted>>

\* ------------------------------------------------------------ ping loop
PingDue ==
  /\ Quiet /\ opened /\ pings < MaxPings /\ pw.st = "idle"
  /\ pings' = pings + 1
  /\ IF Variant = "pingDirect"
     THEN /\ pw' = [st |-> "send", off |-> 0] /\ run' = "p"          \* self._socket.write(self._ping_msg)
          /\ started' = Append(started, PingFrame)
          /\ UNCHANGED queue
     ELSE /\ queue' = Append(queue, Item("ping", 0, PingFrame, PingFrame))
          /\ UNCHANGED <<pw, run, started>>
  /\ UNCHANGED <<opened, cstate, scratch, dframe, w, room, expired, transit, closed, wire, viol, svars, accepted>>

PingSend ==       \* "pingDirect" only
  /\ run = "p" /\ pw.st = "send"
  /\ IF room > 0
     THEN LET k == Min2(room, Len(PingFrame) - pw.off) IN
          /\ Accept(SubSeq(PingFrame, pw.off + 1, pw.off + k))
          /\ IF pw.off + k = Len(PingFrame)
             THEN pw' = [st |-> "idle", off |-> 0] /\ run' = "none"
             ELSE pw' = [pw EXCEPT !.off = pw.off + k] /\ UNCHANGED run
          /\ UNCHANGED closed
     ELSE IF w.st = "blocked"
     THEN /\ Shutdown(1)                        \* ConcurrentObjectUseError in the ping loop -> _Shutdown(e)
          /\ UNCHANGED <<pw, wire, room>>
     ELSE /\ pw' = [pw EXCEPT !.st = "blocked"] /\ run' = "none"
          /\ UNCHANGED <<wire, room, viol, closed, svars>>
  /\ UNCHANGED <<opened, cstate, scratch, dframe, queue, w, expired, transit, pings, started, accepted>>

PingWake ==
  /\ Quiet /\ pw.st = "blocked" /\ room >= Lowat
  /\ pw' = [pw EXCEPT !.st = "send"] /\ run' = "p"
  /\ UNCHANGED <<opened, cstate, scratch, dframe, queue, w, room, expired, transit, pings, closed, started, wire, viol,
                 svars, accepted>>

\* ------------------------------------------------------------ deadline
\* ClientTimeoutSink._TimeoutHelper: evt.Set(True) -> timeout_proc -> _OnTimeout(tag) -> a Tdiscarded is queued
Expire(m) ==
  /\ Quiet /\ m \in HasDl /\ cstate[m] # "new" /\ m \notin expired
  /\ expired' = expired \cup {m}
  /\ viol' = IF viol # "ok" THEN viol ELSE SupDiscCheck(<<m>>)     \* the discard of call m is supplied
  /\ SupDiscUpd(<<m>>)
  /\ IF m \in transit
     THEN /\ queue' = Append(queue, Item("disc", m, DiscFrame(m), DiscFrame(m)))
          /\ transit' = transit \ {m}
          \* "sharedDiscard": frame[8:11] = tag; the queue entry is that one frame object
          /\ dframe' = IF Variant = "sharedDiscard" THEN DiscFrame(m) ELSE dframe
     ELSE UNCHANGED <<queue, transit, dframe>>
  /\ IF Variant = "abandon" /\ w.st = "blocked" /\ w.item.kind = "disp" /\ w.item.m = m
     THEN /\ w' = [st |-> "loop", item |-> NoItem, off |-> 0]      \* gevent.Timeout(remaining, False) fires in write
          /\ run' = "w"
     ELSE UNCHANGED <<w, run>>
  /\ UNCHANGED <<opened, cstate, scratch, pw, room, pings, closed, started, wire, accepted>>

\* ------------------------------------------------------------ peer
Drain(n) ==
  /\ Quiet /\ room < Cap
  /\ room' = Min2(room + n, Cap)
  /\ UNCHANGED <<opened, cstate, scratch, dframe, queue, w, pw, run, expired, transit, pings, closed, started, wire, viol,
                 svars, accepted>>

\* the connection fails: a blocked send raises, _Shutdown closes the socket
Fault ==
  /\ Quiet /\ opened
  /\ Shutdown(IF w.st = "blocked" \/ pw.st = "blocked" THEN 1 ELSE 0)
  /\ UNCHANGED <<opened, cstate, scratch, dframe, queue, w, pw, room, expired, transit, pings, started, wire, accepted>>

Next ==
  \/ OpenDone \/ WriterWake \/ WriterLoop \/ WriterSend \/ PingDue \/ PingSend \/ PingWake \/ Fault
  \/ \E m \in Calls : Issue(m) \/ Resume(m) \/ Expire(m)
  \/ \E n \in Drains : Drain(n)

Spec == Init /\ [][Next]_vars

\* ------------------------------------------------------------ invariants
TypeOK ==
  /\ w.st \in {"get", "loop", "send", "blocked"} /\ pw.st \in {"idle", "send", "blocked"}
  /\ run \in {"none", "w", "p"} /\ room \in 0..Cap
  /\ (run = "w") = (w.st \in {"loop", "send"} /\ ~closed)
  /\ (run = "p") = (pw.st = "send" /\ ~closed)

\* The delivered stream is a concatenation of whole frames, as supplied, in the order their writes
\* began; only the frame being written may be incomplete.
WholeFramesInOrder ==
  LET n    == Len(started)
      part == IF w.st \in {"send", "blocked"} THEN w.off
              ELSE IF pw.st \in {"send", "blocked"} THEN pw.off
              ELSE IF n > 0 THEN Len(started[n]) ELSE 0
  IN wire = Concat([i \in 1..n |-> IF i < n THEN started[i] ELSE SubSeq(started[n], 1, part)])

\* The property-level machine accepts: no clause failed at any step, and whenever the writer side is
\* idle (or the connection is closed) the stream ends on a frame boundary (or was closed mid-write).
AtRest == closed \/ (run = "none" /\ w.st = "get" /\ queue = <<>> /\ pw.st = "idle")
AbsAccepts == viol = "ok" /\ (AtRest => EndCheck = "ok")

\* Vacuity guard (expected to be violated): the open connection comes to rest after both Tdispatch, a
\* Tdiscarded and a Tping were written.
NotAllWritten == ~(AtRest /\ ~closed /\ Len(started) = Cardinality(Calls) + 2)
=============================================================================
