----------------------------- MODULE ApertureAbs -----------------------------
(***************************************************************************)
(* C06 -- the aperture balancer as its observers see it (property oracle).  *)
(*                                                                         *)
(* Observables: the server set (Join/Leave), the mock channels below the   *)
(* balancer (Create, OpenCall, OpenDone, CloseSeen, driver-forced state     *)
(* flips), the requests (dispatch / completion), virtual time, and the      *)
(* published gauges scales.loadbalancer.Aperture.{active,idle,load_average}.*)
(* Every get/put is an *adjust sample*: the balancer publishes             *)
(* load_average = smoothed outstanding / active size and then may resize.  *)
(* A sample record carries                                                 *)
(*   k      +1 (dispatch) or -1 (completion)                               *)
(*   t      time (ms in traces; constant 0 in the code-shaped model)       *)
(*   lo,hi  floor / ceiling of the published load in units of 1/sc         *)
(*          (so  load >= maxL  <=>  lo >= maxL  and  load <= minL <=> hi <= minL *)
(*          exactly, band edges being integers in these units)             *)
(*   sB,iB  active / idle gauges at the instant of the sample              *)
(*   hB     healthy (state <= Busy) active members at that instant, -1 if  *)
(*          the internal projection (heap) is unavailable                  *)
(*   avg    smoothed outstanding count in units of 1/sc                    *)
(*   a,i    active / idle gauges when the call returned                    *)
(* All other events carry t and the gauges a,i after the event.            *)
(*                                                                         *)
(* The state is one record `ab`; the configuration `acfg` =                *)
(*   [minS, maxS, minL, maxL, sc, win, tol, btol]                          *)
(* (sizes, band in 1/sc units, EMA window in time units, settle and        *)
(* between-ness tolerances in 1/sc units).                                 *)
(* XCheck(s, ...) returns "ok" or the first failing clause, evaluated in   *)
(* the pre-state s; XUpd(s, ...) is the unguarded successor state.         *)
(*                                                                         *)
(* Clauses (DESIGN.md 5/C06):                                              *)
(*  C06.partition  at a quiescent point active+idle gauges = |S| and, if   *)
(*                 the heap/idle projection is readable, the active list   *)
(*                 has no duplicate, is disjoint from idle, union = S.     *)
(*  C06.floor      a contraction (any decrease of `active` that is not a   *)
(*                 Leave) never leaves fewer than min(minS, |S|) active.   *)
(*  C06.ceiling    a sample taken with sB >= maxS does not grow `active`.  *)
(*                 (Growth outside samples - member down, leave, join      *)
(*                 below min_size, jitter - is not load-driven: unbounded.)*)
(*  C06.grow       sample with load >= maxL, iB > 0, sB < maxS: grows.     *)
(*                 Also: a request that finds the aperture empty (active = 0:   *)
(*                 "essentially infinite load" in the code's own words), or a  *)
(*                 completion sampled at active = 0, while idle members remain *)
(*                 and maxS > 0: the active set grows (a floor under demand).   *)
(*  C06.shrink     sample with load <= minL, hB > minS and no open pending *)
(*                 (none in flight, none completed since the last          *)
(*                 quiescent point): shrinks by exactly one.               *)
(*  C06.smoothed   the published load is the smoothed outstanding count    *)
(*                 per active member: avg/sB within [lo,hi]; avg lies      *)
(*                 between the previous avg and the reference outstanding  *)
(*                 count, strictly closer to it when >= 1/5 window passed  *)
(*                 (this validates the EMA abstraction of Aperture.tla     *)
(*                 against scales.varz.Ema on every sample).               *)
(*  C06.settles    (only if maxL > 2*minL) at a sample after >= 10 windows *)
(*                 of steady traffic and no open pending the load is not   *)
(*                 out of band (beyond tol) while the size could move.     *)
(* Steady traffic = no membership / channel / failed-open event, no size   *)
(* change outside samples, the outstanding count constant whenever time    *)
(* advances, every sample with elapsed time carrying the same total, and   *)
(* at least one sample per window.                                         *)
(***************************************************************************)
EXTENDS Integers, Sequences, FiniteSets, TLC

VARIABLES ab, acfg
avars == <<ab, acfg>>

Min2(x, y) == IF x < y THEN x ELSE y
Max2(x, y) == IF x > y THEN x ELSE y
AbsV(x) == IF x < 0 THEN -x ELSE x

AState(S, a, i, t) ==
  [S |-> S, gA |-> a, gI |-> i, tot |-> 0, opening |-> {}, settling |-> {}, T |-> t, sampT |-> t,
   avg |-> 0, avgKnown |-> TRUE, stSince |-> t, stL |-> -1, cntL |-> -1]

AInit(cfg, S, a, i, t) == acfg = cfg /\ ab = AState(S, a, i, t)

\* ---------------------------------------------------------------- steadiness
Unsteady(s, t) == [s EXCEPT !.stSince = t, !.stL = -1, !.cntL = -1]

\* time advances to t: the outstanding count during the gap was s.tot
Adv(s, t) ==
  IF t > s.T
  THEN IF s.cntL = -1 THEN [s EXCEPT !.cntL = s.tot]
       ELSE IF s.cntL # s.tot THEN [Unsteady(s, s.T) EXCEPT !.cntL = s.tot]
       ELSE s
  ELSE s

\* gauges after a non-sample event
Gauges(s, t, a, i) ==
  LET s0 == Adv(s, t)
      s1 == IF a # s.gA \/ i # s.gI THEN Unsteady(s0, t) ELSE s0
  IN [s1 EXCEPT !.gA = a, !.gI = i, !.T = t]

ClockCheck(s, t) == IF t >= s.T THEN "ok" ELSE "harness.clockMonotone"

Floor(s) == Min2(acfg.minS, Cardinality(s.S))
FloorCheck(s, a) == IF a < s.gA /\ a < Floor(s) THEN "C06.floor" ELSE "ok"

\* ---------------------------------------------------------------- plain events
\* Tick / Create / CloseSeen: nothing but time and gauges
PlainCheck(s, t, a, i) ==
  IF ClockCheck(s, t) # "ok" THEN ClockCheck(s, t) ELSE FloorCheck(s, a)
PlainUpd(s, t, a, i) == Gauges(s, t, a, i)

\* environment disturbance (driver flips a channel state)
EnvCheck(s, t, a, i) == PlainCheck(s, t, a, i)
EnvUpd(s, t, a, i) == Unsteady(Gauges(s, t, a, i), t)

JoinCheck(s, e, t, a, i) == PlainCheck(s, t, a, i)
JoinUpd(s, e, t, a, i) == [Unsteady(Gauges(s, t, a, i), t) EXCEPT !.S = s.S \cup {e}]

\* a Leave may shrink the active set (no idle member to replace it): exempt from floor
LeaveCheck(s, e, t, a, i) == ClockCheck(s, t)
LeaveUpd(s, e, t, a, i) == [Unsteady(Gauges(s, t, a, i), t) EXCEPT !.S = s.S \ {e}]

OpenCallCheck(s, c, t, a, i) == PlainCheck(s, t, a, i)
OpenCallUpd(s, c, t, a, i) == [Gauges(s, t, a, i) EXCEPT !.opening = s.opening \cup {c}]

OpenDoneCheck(s, c, ok, t, a, i) ==
  IF c \notin s.opening THEN "harness.openNotPending" ELSE PlainCheck(s, t, a, i)
OpenDoneUpd(s, c, ok, t, a, i) ==
  LET s1 == Gauges(s, t, a, i)
      s2 == IF ok = 1 THEN s1 ELSE Unsteady(s1, t)
  IN [s2 EXCEPT !.opening = s.opening \ {c}, !.settling = s.settling \cup {c}]

\* ---------------------------------------------------------------- quiescent point
NoDup(seq) == \A x, y \in DOMAIN seq : x # y => seq[x] # seq[y]
RangeOf(seq) == {seq[x] : x \in DOMAIN seq}

QuietCheck(s, t, a, i, proj, act, idl) ==
  IF ClockCheck(s, t) # "ok" THEN ClockCheck(s, t)
  ELSE IF FloorCheck(s, a) # "ok" THEN FloorCheck(s, a)
  ELSE IF a + i # Cardinality(s.S) THEN "C06.partition"
  ELSE IF proj = 1 /\ ~( /\ NoDup(act) /\ NoDup(idl)
                         /\ RangeOf(act) \cap RangeOf(idl) = {}
                         /\ RangeOf(act) \cup RangeOf(idl) = s.S ) THEN "C06.partition"
  ELSE "ok"
QuietUpd(s, t, a, i, proj, act, idl) == [Gauges(s, t, a, i) EXCEPT !.settling = {}]

\* ---------------------------------------------------------------- samples
\* load at an empty aperture is infinite: >= maxL whatever the band
EmptyGrowOk(s, a) == (s.gA = 0 /\ s.gI > 0 /\ acfg.maxS > 0) => a > 0

\* a request answered at once with NoMembersError (no member chosen, no sample published)
NoMemberCheck(s, t, a, i) ==
  IF ClockCheck(s, t) # "ok" THEN ClockCheck(s, t)
  ELSE IF ~EmptyGrowOk(s, a) THEN "C06.grow"
  ELSE FloorCheck(s, a)
NoMemberUpd(s, t, a, i) == Gauges(s, t, a, i)

\* a get/put for which no load was published (active size 0): the average moves unobserved
BlindCheck(s, k, t, a, i) ==
  IF ClockCheck(s, t) # "ok" THEN ClockCheck(s, t)
  ELSE IF s.tot + k < 0 THEN "harness.negativeTotal"
  ELSE IF ~EmptyGrowOk(s, a) THEN "C06.grow"
  ELSE FloorCheck(s, a)
BlindUpd(s, k, t, a, i) ==
  [Unsteady(Gauges(s, t, a, i), t) EXCEPT !.tot = s.tot + k, !.avgKnown = FALSE, !.sampT = t]

Track(s, ev) ==
  LET s0 == Adv(s, ev.t)
      s1 == IF ev.sB # s.gA \/ ev.iB # s.gI THEN Unsteady(s0, ev.t) ELSE s0
      dt == ev.t - s.sampT
      tot1 == s.tot + ev.k
      s2 == IF dt > acfg.win THEN Unsteady(s1, ev.t) ELSE s1
  IN IF dt > 0 /\ s2.stL # tot1 THEN [s2 EXCEPT !.stL = tot1, !.stSince = ev.t] ELSE s2

NoOpen(s) == s.opening = {} /\ s.settling = {}

SmoothedOk(s, ev) ==
  LET X == (s.tot + ev.k) * acfg.sc
      dt == ev.t - s.sampT
      p == s.avg
  IN /\ ev.lo * ev.sB - 1 <= ev.avg /\ ev.avg <= ev.hi * ev.sB + 1
     /\ ev.lo <= ev.hi
     /\ s.avgKnown =>
          /\ Min2(p, X) - acfg.btol <= ev.avg /\ ev.avg <= Max2(p, X) + acfg.btol
          /\ (dt * 5 >= acfg.win /\ AbsV(p - X) * 10 >= acfg.sc) => AbsV(ev.avg - X) < AbsV(p - X)

SettledOk(s, ev) ==
  LET st == Track(s, ev)
      steady == st.stL # -1 /\ ev.t - st.stSince >= 10 * acfg.win /\ NoOpen(s)
      highStuck == ev.lo >= acfg.maxL + acfg.tol /\ ev.iB > 0 /\ ev.sB < acfg.maxS
      lowStuck == ev.hB > acfg.minS /\ ev.hi <= acfg.minL - acfg.tol
  IN (acfg.maxL > 2 * acfg.minL /\ steady) => (~highStuck /\ ~lowStuck)

SampleCheck(s, ev) ==
  IF ClockCheck(s, ev.t) # "ok" THEN ClockCheck(s, ev.t)
  ELSE IF s.tot + ev.k < 0 THEN "harness.negativeTotal"
  ELSE IF ev.sB <= 0 THEN "harness.sampleWithoutActive"
  ELSE IF ~SmoothedOk(s, ev) THEN "C06.smoothed"
  ELSE IF ev.sB >= acfg.maxS /\ ev.a > ev.sB THEN "C06.ceiling"
  ELSE IF ev.a < ev.sB /\ ev.a < Floor(s) THEN "C06.floor"
  ELSE IF ev.lo >= acfg.maxL /\ ev.iB > 0 /\ ev.sB < acfg.maxS /\ ~(ev.a > ev.sB) THEN "C06.grow"
  ELSE IF ev.hi <= acfg.minL /\ ev.hB > acfg.minS /\ NoOpen(s) /\ ev.a # ev.sB - 1 THEN "C06.shrink"
  ELSE IF ~SettledOk(s, ev) THEN "C06.settles"
  ELSE "ok"

SampleUpd(s, ev) ==
  [Track(s, ev) EXCEPT !.tot = s.tot + ev.k, !.avg = ev.avg, !.avgKnown = TRUE, !.sampT = ev.t,
                       !.gA = ev.a, !.gI = ev.i, !.T = ev.t]

\* Steady-state predicates used by the temporal property of the code-shaped model
InBand(lo, hi) == hi > acfg.minL /\ lo < acfg.maxL
=============================================================================
