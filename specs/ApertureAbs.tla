----------------------------- MODULE ApertureAbs -----------------------------
(***************************************************************************)
(* C06 -- the aperture balancer as its observers see it (property oracle).  *)
(*                                                                         *)
(* Observables: the server set (Join/Leave), the mock channels below the   *)
(* balancer (Create, OpenCall, OpenDone, CloseSeen, driver-forced state     *)
(* flips), the requests (dispatch / completion), virtual time, and the      *)
(* published gauges scales.loadbalancer.Aperture.{active,idle,load_average}.*)
(* Every get/put is an *adjust sample*: the balancer publishes             *)
(* load_average = smoothed outstanding / active size and then may resize.  *)
(* A sample record carries                                                 *)
(*   k      +1 (dispatch) or -1 (completion)                               *)
(*   t      time (ms in traces; constant 0 in the code-shaped model)       *)
(*   u      microseconds of the instant within the ms t (0..999)           *)
(*   ref    RefOf(s, k, t, u): enclosure [lo, hi] of the reference         *)
(*          smoothing after this event (computed by the caller, once)      *)
(*   lo,hi  floor / ceiling of the published load in units of 1/sc         *)
(*          (so  load >= maxL  <=>  lo >= maxL  and  load <= minL <=> hi <= minL *)
(*          exactly, band edges being integers in these units)             *)
(*   sB,iB  active / idle gauges at the instant of the sample              *)
(*   hB     healthy (state <= Busy) active members at that instant, -1 if  *)
(*          the internal projection (heap) is unavailable                  *)
(*   avg    smoothed outstanding count in units of 1/sc                    *)
(*   a,i    active / idle gauges when the call returned                    *)
(* All other events carry t and the gauges a,i after the event.            *)
(*                                                                         *)
(* The state is one record `ab`; the configuration `acfg` =                *)
(*   [minS, maxS, minL, maxL, sc, win, tol, btol, ref, rtol]               *)
(* (sizes, band in 1/sc units, EMA window in time units, settle and        *)
(* between-ness tolerances in 1/sc units; ref = 1: the reference smoothing *)
(* is computed and compared (traces; 0 in the untimed code-shaped model);  *)
(* rtol: rounding of the recorded avg to 1/sc units + float arithmetic).   *)
(* XCheck(s, ...) returns "ok" or the first failing clause, evaluated in   *)
(* the pre-state s; XUpd(s, ...) is the unguarded successor state.         *)
(*                                                                         *)
(* Clauses (DESIGN.md 5/C06):                                              *)
(*  C06.partition  at a quiescent point active+idle gauges = |S| and, if   *)
(*                 the heap/idle projection is readable, the active list   *)
(*                 has no duplicate, is disjoint from idle, union = S.     *)
(*  C06.floor      a contraction (any decrease of `active` that is not a   *)
(*                 Leave) never leaves fewer than min(minS, |S|) active.   *)
(*  C06.ceiling    a sample taken with sB >= maxS does not grow `active`.  *)
(*                 (Growth outside samples - member down, leave, join      *)
(*                 below min_size, jitter - is not load-driven: unbounded.)*)
(*  C06.grow       sample with load >= maxL, iB > 0, sB < maxS: grows.     *)
(*                 Also: a request that finds the aperture empty (active = 0:   *)
(*                 "essentially infinite load" in the code's own words), or a  *)
(*                 completion sampled at active = 0, while idle members remain *)
(*                 and maxS > 0: the active set grows (a floor under demand).   *)
(*  C06.shrink     sample with load <= minL, hB > minS and no open pending *)
(*                 (none in flight, none completed since the last          *)
(*                 quiescent point): shrinks by exactly one.               *)
(*  C06.smoothed   the published load is the smoothed outstanding count    *)
(*                 per active member: avg/sB within [lo,hi]; avg lies      *)
(*                 between the previous avg and the reference outstanding  *)
(*                 count, strictly closer to it when >= 1/5 window passed  *)
(*                 (this validates the EMA abstraction of Aperture.tla     *)
(*                 against scales.varz.Ema on every sample).  With ref = 1 *)
(*                 also: avg lies in the enclosure of the reference        *)
(*                 smoothing - the window-`win` exponential average of the *)
(*                 outstanding count recomputed here from the recorded     *)
(*                 get/put events and their times (microseconds), see      *)
(*                 "reference smoothing" below - widened by rtol only.  A  *)
(*                 smoothing that ignores, loses or stretches elapsed time *)
(*                 (at any granularity of time) fails here, and grow /     *)
(*                 shrink / settles, which read the published load, are    *)
(*                 thereby tied to the real smoothed load.                 *)
(*  C06.settles    (only if maxL > 2*minL) at a sample after >= 10 windows *)
(*                 of steady traffic and no open pending the load is not   *)
(*                 out of band (beyond tol) while the size could move.     *)
(* Steady traffic = no membership / channel / failed-open event, no size   *)
(* change outside samples, the outstanding count constant whenever time    *)
(* advances, every sample with elapsed time carrying the same total, and   *)
(* at least one sample per window.                                         *)
(***************************************************************************)
EXTENDS Integers, Sequences, FiniteSets, TLC

VARIABLES ab, acfg
avars == <<ab, acfg>>

Min2(x, y) == IF x < y THEN x ELSE y
Max2(x, y) == IF x > y THEN x ELSE y
AbsV(x) == IF x < 0 THEN -x ELSE x

AState(S, a, i, t) ==
  [S |-> S, gA |-> a, gI |-> i, tot |-> 0, opening |-> {}, settling |-> {}, T |-> t, sampT |-> t,
   avg |-> 0, avgKnown |-> TRUE, stSince |-> t, stL |-> -1, cntL |-> -1,
   sampU |-> 0, refKnown |-> FALSE, rlo |-> 0, rhi |-> 0]

AInit(cfg, S, a, i, t) == acfg = cfg /\ ab = AState(S, a, i, t)

\* ---------------------------------------------------------------- steadiness
Unsteady(s, t) == [s EXCEPT !.stSince = t, !.stL = -1, !.cntL = -1]

\* time advances to t: the outstanding count during the gap was s.tot
Adv(s, t) ==
  IF t > s.T
  THEN IF s.cntL = -1 THEN [s EXCEPT !.cntL = s.tot]
       ELSE IF s.cntL # s.tot THEN [Unsteady(s, s.T) EXCEPT !.cntL = s.tot]
       ELSE s
  ELSE s

\* gauges after a non-sample event
Gauges(s, t, a, i) ==
  LET s0 == Adv(s, t)
      s1 == IF a # s.gA \/ i # s.gI THEN Unsteady(s0, t) ELSE s0
  IN [s1 EXCEPT !.gA = a, !.gI = i, !.T = t]

ClockCheck(s, t) == IF t >= s.T THEN "ok" ELSE "harness.clockMonotone"

Floor(s) == Min2(acfg.minS, Cardinality(s.S))
FloorCheck(s, a) == IF a < s.gA /\ a < Floor(s) THEN "C06.floor" ELSE "ok"

\* ---------------------------------------------------------------- plain events
\* Tick / Create / CloseSeen: nothing but time and gauges
PlainCheck(s, t, a, i) ==
  IF ClockCheck(s, t) # "ok" THEN ClockCheck(s, t) ELSE FloorCheck(s, a)
PlainUpd(s, t, a, i) == Gauges(s, t, a, i)

\* environment disturbance (driver flips a channel state)
EnvCheck(s, t, a, i) == PlainCheck(s, t, a, i)
EnvUpd(s, t, a, i) == Unsteady(Gauges(s, t, a, i), t)

JoinCheck(s, e, t, a, i) == PlainCheck(s, t, a, i)
JoinUpd(s, e, t, a, i) == [Unsteady(Gauges(s, t, a, i), t) EXCEPT !.S = s.S \cup {e}]

\* a Leave may shrink the active set (no idle member to replace it): exempt from floor
LeaveCheck(s, e, t, a, i) == ClockCheck(s, t)
LeaveUpd(s, e, t, a, i) == [Unsteady(Gauges(s, t, a, i), t) EXCEPT !.S = s.S \ {e}]

OpenCallCheck(s, c, t, a, i) == PlainCheck(s, t, a, i)
OpenCallUpd(s, c, t, a, i) == [Gauges(s, t, a, i) EXCEPT !.opening = s.opening \cup {c}]

OpenDoneCheck(s, c, ok, t, a, i) ==
  IF c \notin s.opening THEN "harness.openNotPending" ELSE PlainCheck(s, t, a, i)
OpenDoneUpd(s, c, ok, t, a, i) ==
  LET s1 == Gauges(s, t, a, i)
      s2 == IF ok = 1 THEN s1 ELSE Unsteady(s1, t)
  IN [s2 EXCEPT !.opening = s.opening \ {c}, !.settling = s.settling \cup {c}]

\* ---------------------------------------------------------------- quiescent point
NoDup(seq) == \A x, y \in DOMAIN seq : x # y => seq[x] # seq[y]
RangeOf(seq) == {seq[x] : x \in DOMAIN seq}

QuietCheck(s, t, a, i, proj, act, idl) ==
  IF ClockCheck(s, t) # "ok" THEN ClockCheck(s, t)
  ELSE IF FloorCheck(s, a) # "ok" THEN FloorCheck(s, a)
  ELSE IF a + i # Cardinality(s.S) THEN "C06.partition"
  ELSE IF proj = 1 /\ ~( /\ NoDup(act) /\ NoDup(idl)
                         /\ RangeOf(act) \cap RangeOf(idl) = {}
                         /\ RangeOf(act) \cup RangeOf(idl) = s.S ) THEN "C06.partition"
  ELSE "ok"
QuietUpd(s, t, a, i, proj, act, idl) == [Gauges(s, t, a, i) EXCEPT !.settling = {}]

\* ---------------------------------------------------------------- reference smoothing
\* The "smoothed number of outstanding requests" of the statement, computed here from the recorded
\* get/put events and their times alone (nothing of the code's own average enters it): an exponential
\* moving average over the window acfg.win of the outstanding count, sampled at every get/put,
\*     first sample:  ref = X          later:  ref' = X + (ref - X) * exp(-dt / win)
\* with X the outstanding count after the event and dt the time since the previous get/put.
\* TLC has 32-bit integers and no reals, so the reference is an *enclosure* [rlo, rhi] in units of
\* 1/RSC request that provably contains the real-valued EMA: exp(-dt/win) is enclosed in units of 2^-30
\* (Taylor polynomial of a halved argument, squared back; every rounding directed outwards) and the
\* products are rounded down for rlo, up for rhi.  The enclosure is self-correcting (an error e of one
\* step is multiplied by exp(-dt/win) at every later step); its width stays below about
\* (2 units + |ref - X| * 4e-9) / (1 - exp(-dt/win)): measured < 0.0025 request with 30 requests outstanding and
\* 50 us between events, < 0.0005 request from 0.4 ms on, < 0.00001 at 0.1 s.  Times: ms in `t` plus the
\* microseconds within the ms in `u`; win * 1000 must stay below 8000000 (Frac30) - the window is 5 s.
RSC == 33554432      \* 2^25
ONE == 1073741824    \* 2^30
P15 == 32768         \* 2^15
MaxTot == 31         \* MaxTot * RSC < 2^30
WinCut == 22         \* exp(-22) < 2^-30

\* n * w / 2^30 for 0 <= n, w <= 2^30: <<floor, remainder>> without leaving 31 bits
MulP(n, w) ==
  LET n1 == n \div P15
      n0 == n % P15
      w1 == w \div P15
      w0 == w % P15
      mid == n1 * w0 + n0 * w1
      low == (mid % P15) * P15 + n0 * w0
  IN <<n1 * w1 + mid \div P15 + low \div ONE, low % ONE>>
MulDn(n, w) == MulP(n, w)[1]
MulUp(n, w) == LET p == MulP(n, w) IN p[1] + IF p[2] = 0 THEN 0 ELSE 1

\* floor(r * 2^30 / d) for 0 <= r < d <= 8000000 (long division, 8 + 8 + 8 + 6 bits)
Frac30(r, d) ==
  LET a1 == r * 256
      a2 == (a1 % d) * 256
      a3 == (a2 % d) * 256
      a4 == (a3 % d) * 64
  IN (((a1 \div d) * 256 + a2 \div d) * 256 + a3 \div d) * 64 + a4 \div d

RECURSIVE SqDn(_, _), SqUp(_, _)
SqDn(w, k) == IF k = 0 THEN w ELSE SqDn(MulDn(w, w), k - 1)
SqUp(w, k) == IF k = 0 THEN w ELSE SqUp(MulUp(w, w), k - 1)

\* enclosure [lo, hi] (units of 2^-30) of exp(-dt / d), dt >= 0 and d > 0 in the same unit
ExpB(dt, d) ==
  IF dt = 0 THEN [lo |-> ONE, hi |-> ONE]
  ELSE IF dt \div d >= WinCut THEN [lo |-> 0, hi |-> 1]
  ELSE LET n == dt \div d
           f == Frac30(dt % d, d)                \* dt/d in [n + f/2^30, n + (f+1)/2^30)
           Y(k) == n * 2^(30 - k) + f \div 2^k    \* floor(2^30 * dt / (d * 2^k))
           kmin == IF n = 0 THEN 0 ELSE 7
           k == CHOOSE j \in kmin..11 : Y(j) < 16777216 /\ \A i \in kmin..(j - 1) : Y(i) >= 16777216
           yl == Y(k)                            \* y = dt / (d * 2^k) <= 1/64, in [yl, yh]
           yh == yl + 1
           \* 1 - y + y^2/2 - y^3/6 <= exp(-y) <= 1 - y + y^2/2 - y^3/6 + y^4/24, exp(-y) decreasing in y
           h2 == MulDn(yh, yh)
           h3 == MulUp(MulUp(yh, yh), yh)
           L == ONE - yh + h2 \div 2 - (h3 + 5) \div 6
           l2 == MulUp(yl, yl)
           l3 == MulDn(MulDn(yl, yl), yl)
           l4 == MulUp(MulUp(l2, yl), yl)
           U == ONE - yl + (l2 + 1) \div 2 - l3 \div 6 + (l4 + 23) \div 24
       IN [lo |-> SqDn(L, k), hi |-> SqUp(Min2(U, ONE), k)]

\* the enclosure after a get/put that leaves tot1 requests outstanding at time (t ms, u us)
RefNext(s, tot1, t, u) ==
  LET X == tot1 * RSC
      dms == t - s.sampT
      dt == IF dms >= WinCut * acfg.win THEN WinCut * acfg.win * 1000 ELSE dms * 1000 + (u - s.sampU)
      w == ExpB(dt, acfg.win * 1000)
  IN IF ~s.refKnown THEN [lo |-> X, hi |-> X]
     ELSE [lo |-> IF s.rlo >= X THEN X + MulDn(s.rlo - X, w.lo) ELSE X - MulUp(X - s.rlo, w.hi),
           hi |-> IF s.rhi >= X THEN X + MulUp(s.rhi - X, w.hi) ELSE X - MulDn(X - s.rhi, w.lo)]

\* floor / ceiling of r * sc / RSC (r in units of 1/RSC, result in units of 1/sc; sc <= 32768)
ToSc(r) ==
  LET m == (r \div P15) * acfg.sc + ((r % P15) * acfg.sc) \div P15
      exact == ((r % P15) * acfg.sc) % P15 = 0 /\ m % 1024 = 0
  IN <<m \div 1024, IF exact THEN m \div 1024 ELSE m \div 1024 + 1>>

RefOn == acfg.ref = 1
RefClock(s, t, u) == IF RefOn /\ t = s.sampT /\ u < s.sampU THEN "harness.clockMonotone" ELSE "ok"
RefRange(s, k) == IF RefOn /\ s.tot + k > MaxTot THEN "harness.refRange" ELSE "ok"
\* the enclosure after a get (k = 1) / put (k = -1) at (t, u); computed once per event by the caller of
\* SampleCheck / SampleUpd and handed to both in the sample record (field ref)
NoRef == [lo |-> 0, hi |-> 0]
RefOf(s, k, t, u) == IF RefOn THEN RefNext(s, s.tot + k, t, u) ELSE NoRef
WithRef(s1, r, u) ==
  IF RefOn THEN [s1 EXCEPT !.rlo = r.lo, !.rhi = r.hi, !.refKnown = TRUE, !.sampU = u] ELSE s1

\* ---------------------------------------------------------------- samples
\* load at an empty aperture is infinite: >= maxL whatever the band
EmptyGrowOk(s, a) == (s.gA = 0 /\ s.gI > 0 /\ acfg.maxS > 0) => a > 0

\* a request answered at once with NoMembersError (no member chosen, no sample published)
NoMemberCheck(s, t, a, i) ==
  IF ClockCheck(s, t) # "ok" THEN ClockCheck(s, t)
  ELSE IF ~EmptyGrowOk(s, a) THEN "C06.grow"
  ELSE FloorCheck(s, a)
NoMemberUpd(s, t, a, i) == Gauges(s, t, a, i)

\* a get/put for which no load was published (active size 0): the average moves unobserved
BlindCheck(s, k, t, u, a, i) ==
  IF ClockCheck(s, t) # "ok" THEN ClockCheck(s, t)
  ELSE IF RefClock(s, t, u) # "ok" THEN RefClock(s, t, u)
  ELSE IF s.tot + k < 0 THEN "harness.negativeTotal"
  ELSE IF RefRange(s, k) # "ok" THEN RefRange(s, k)
  ELSE IF ~EmptyGrowOk(s, a) THEN "C06.grow"
  ELSE FloorCheck(s, a)
BlindUpd(s, k, t, u, a, i) ==
  WithRef([Unsteady(Gauges(s, t, a, i), t) EXCEPT !.tot = s.tot + k, !.avgKnown = FALSE, !.sampT = t],
          RefOf(s, k, t, u), u)

Track(s, ev) ==
  LET s0 == Adv(s, ev.t)
      s1 == IF ev.sB # s.gA \/ ev.iB # s.gI THEN Unsteady(s0, ev.t) ELSE s0
      dt == ev.t - s.sampT
      tot1 == s.tot + ev.k
      s2 == IF dt > acfg.win THEN Unsteady(s1, ev.t) ELSE s1
  IN IF dt > 0 /\ s2.stL # tot1 THEN [s2 EXCEPT !.stL = tot1, !.stSince = ev.t] ELSE s2

NoOpen(s) == s.opening = {} /\ s.settling = {}

SmoothedOk(s, ev) ==
  LET X == (s.tot + ev.k) * acfg.sc
      dt == ev.t - s.sampT
      p == s.avg
  IN /\ ev.lo * ev.sB - 1 <= ev.avg /\ ev.avg <= ev.hi * ev.sB + 1
     /\ ev.lo <= ev.hi
     /\ s.avgKnown =>
          /\ Min2(p, X) - acfg.btol <= ev.avg /\ ev.avg <= Max2(p, X) + acfg.btol
          /\ (dt * 5 >= acfg.win /\ AbsV(p - X) * 10 >= acfg.sc) => AbsV(ev.avg - X) < AbsV(p - X)
     /\ RefOn => ToSc(ev.ref.lo)[1] - acfg.rtol <= ev.avg /\ ev.avg <= ToSc(ev.ref.hi)[2] + acfg.rtol

SettledOk(s, ev) ==
  LET st == Track(s, ev)
      steady == st.stL # -1 /\ ev.t - st.stSince >= 10 * acfg.win /\ NoOpen(s)
      highStuck == ev.lo >= acfg.maxL + acfg.tol /\ ev.iB > 0 /\ ev.sB < acfg.maxS
      lowStuck == ev.hB > acfg.minS /\ ev.hi <= acfg.minL - acfg.tol
  IN (acfg.maxL > 2 * acfg.minL /\ steady) => (~highStuck /\ ~lowStuck)

SampleCheck(s, ev) ==
  IF ClockCheck(s, ev.t) # "ok" THEN ClockCheck(s, ev.t)
  ELSE IF RefClock(s, ev.t, ev.u) # "ok" THEN RefClock(s, ev.t, ev.u)
  ELSE IF s.tot + ev.k < 0 THEN "harness.negativeTotal"
  ELSE IF RefRange(s, ev.k) # "ok" THEN RefRange(s, ev.k)
  ELSE IF ev.sB <= 0 THEN "harness.sampleWithoutActive"
  ELSE IF ~SmoothedOk(s, ev) THEN "C06.smoothed"
  ELSE IF ev.sB >= acfg.maxS /\ ev.a > ev.sB THEN "C06.ceiling"
  ELSE IF ev.a < ev.sB /\ ev.a < Floor(s) THEN "C06.floor"
  ELSE IF ev.lo >= acfg.maxL /\ ev.iB > 0 /\ ev.sB < acfg.maxS /\ ~(ev.a > ev.sB) THEN "C06.grow"
  ELSE IF ev.hi <= acfg.minL /\ ev.hB > acfg.minS /\ NoOpen(s) /\ ev.a # ev.sB - 1 THEN "C06.shrink"
  ELSE IF ~SettledOk(s, ev) THEN "C06.settles"
  ELSE "ok"

SampleUpd(s, ev) ==
  WithRef([Track(s, ev) EXCEPT !.tot = s.tot + ev.k, !.avg = ev.avg, !.avgKnown = TRUE, !.sampT = ev.t,
                               !.gA = ev.a, !.gI = ev.i, !.T = ev.t],
          ev.ref, ev.u)

\* Steady-state predicates used by the temporal property of the code-shaped model
InBand(lo, hi) == hi > acfg.minL /\ lo < acfg.maxL
=============================================================================
