----------------------------- MODULE ProxyDispatch -----------------------------
(***************************************************************************)
(* C20 -- code-shaped model of the path a proxy call takes through         *)
(* scales/dispatch.py MessageDispatcher, in particular the path of a call  *)
(* made before the client's Open() has completed                           *)
(* (_DispatchMethodAfterOpen), with the call machine of ProxyCalls in      *)
(* lock-step on ghost variables.                                           *)
(*                                                                         *)
(* One action per code segment between two yields (a hub callback, a       *)
(* greenlet's run up to its next switch):                                  *)
(*   DoCall(c, f)     _ProxyMethod -> DispatchMethodCall: open result      *)
(*                    ready -> _DispatchMethod (new call result, greenlet  *)
(*                    spawned for next_sink.AsyncProcessRequest); not      *)
(*                    ready -> _DispatchMethodAfterOpen: new `ret`, a      *)
(*                    continuation linked on the open result               *)
(*   Returned(c)      the same segment, second half: the _async form hands *)
(*                    the result object to its caller / the blocking form  *)
(*                    enters ar.get() (no other action in between)         *)
(*   OpenSet          the sink's Open() result is set (environment)        *)
(*   OpenNotify       the open result's notifier runs its links in order:  *)
(*                    every waiting call is dispatched (_DispatchMethod)   *)
(*   CwNotify(c)      [Design "chain"] ContinueWith(dispatch) result's     *)
(*                    notifier: Unwrap -> the call result is linked (or,   *)
(*                    if it is already set, propagated) to the unwrapped   *)
(*                    result                                               *)
(*   SinkRecv(c)      the spawned greenlet: the message arrives at the sink*)
(*   Reply(s, k)      the sink answers message s (environment); the call   *)
(*                    result is set                                        *)
(*   CallArNotify(c)  the call result's notifier: direct call -> its       *)
(*                    caller gets the outcome; early call -> "chain": the  *)
(*                    unwrapped result is set; "drain": complete() runs    *)
(*   TargetNotify(c)  [chain] the unwrapped result's notifier: complete()  *)
(*                    sets `ret` unless it is ready                        *)
(*   RetNotify(c)     ret's notifier: the early call's caller gets the     *)
(*                    outcome                                              *)
(*                                                                         *)
(* Design = "chain" is the code as it is: per call                         *)
(*   open_ar.ContinueWith(dispatch).Unwrap().rawlink(complete)             *)
(* with dispatch / complete closures created per call.  Design = "drain"   *)
(* is the alternative shape "queue the early calls, one drain dispatches   *)
(* them when the open result fires, call_ar.rawlink(complete)":            *)
(* SharedClosure = FALSE with a completion closure per call (correct),     *)
(* SharedClosure = TRUE with complete() closing over the drain loop's      *)
(* variable, i.e. every completion sets the `ret` of the LAST queued call  *)
(* (kept as counterexample generator: ProxyDispatch_shared.cfg must        *)
(* violate NoViolation).                                                   *)
(*                                                                         *)
(* PeelLosesError = TRUE is the Unwrap variant "peel every completed       *)
(* nested result with `while ready(): value = value.value`": a call result *)
(* that has already FAILED when the ContinueWith result is unwrapped (the  *)
(* sink answered with an error at once, inside the dispatch greenlet) is   *)
(* taken for the value None (ProxyDispatch_peel.cfg must violate           *)
(* NoViolation).  A sink that answers inside AsyncProcessRequest is the    *)
(* interleaving SinkRecv(c), Reply(s, k) with nothing in between.          *)
(*                                                                         *)
(* Not modelled: timeouts (C01), Close, a failing open, sinks between the  *)
(* dispatcher and the recording sink.                                      *)
(***************************************************************************)
EXTENDS ProxyCalls

CONSTANTS NCalls,          \* calls made in a behaviour
          Design,          \* "chain" | "drain"
          SharedClosure,   \* drain only: completion closures share the loop variable
          Kinds,           \* outcomes the sink answers with: subset of {"value", "raise"}
          PeelLosesError   \* chain only: Unwrap takes an already failed call result for the value None

Cs == 1..NCalls
Pending == [st |-> "pending", kind |-> "none", tok |-> 0]
NoAr == [st |-> "none", kind |-> "none", tok |-> 0]
SetTo(k, t) == [st |-> "set", kind |-> k, tok |-> t]

VARIABLES openSt,      \* "pending" | "set" (ready, notifier queued) | "notified"
          queue,       \* calls waiting for the open result, in call order
          path,        \* c -> "none" | "direct" | "early"
          form,        \* c -> "sync" | "async"
          caller,      \* c -> "idle" | "returning" | "waiting" | "finished"
          stage,       \* early c -> "queued" | "cw" | "linked" | "target" | "completed"; else "none"
          tgt,         \* early c -> the call whose `ret` c's completion closure sets
          callAr,      \* c -> result of _DispatchMethod
          noted,       \* c -> the call result's notifier has run
          unw,         \* early c, chain -> the unwrapped result (target of Unwrap)
          ret,         \* early c -> the result handed to the caller
          spawned,     \* calls whose AsyncProcessRequest greenlet has not run yet
          sinkMsgs,    \* messages at the sink, in arrival order (seq = index) -> call
          viol
ivars == <<openSt, queue, path, form, caller, stage, tgt, callAr, noted, unw, ret, spawned, sinkMsgs>>
vars == <<ivars, cvars, viol>>

\* what call c hands over: its own name and one argument that no other call uses
P(c) == [m |-> "m", args |-> <<c>>, kw |-> <<>>]

Note(chk) == viol' = IF viol = "ok" THEN chk ELSE viol
Returning == \E c \in Cs : caller[c] = "returning"

Init ==
  /\ openSt = "pending" /\ queue = <<>>
  /\ path = [c \in Cs |-> "none"] /\ form = [c \in Cs |-> "sync"]
  /\ caller = [c \in Cs |-> "idle"] /\ stage = [c \in Cs |-> "none"]
  /\ tgt = [c \in Cs |-> c]
  /\ callAr = [c \in Cs |-> NoAr] /\ noted = [c \in Cs |-> FALSE]
  /\ ret = [c \in Cs |-> NoAr] /\ unw = [c \in Cs |-> NoAr]
  /\ spawned = {} /\ sinkMsgs = <<>>
  /\ CInit /\ viol = "ok"

\* ---------------------------------------------------------------- the caller
DoCall(c, f) ==
  /\ ~Returning /\ caller[c] = "idle"
  /\ \A d \in Cs : d < c => caller[d] # "idle"            \* calls are numbered in call order
  /\ form' = [form EXCEPT ![c] = f]
  /\ caller' = [caller EXCEPT ![c] = "returning"]
  /\ IF openSt # "pending"
       THEN \* self._open_ar.ready(): _DispatchMethod
            /\ path' = [path EXCEPT ![c] = "direct"]
            /\ callAr' = [callAr EXCEPT ![c] = Pending]
            /\ spawned' = spawned \cup {c}
            /\ UNCHANGED <<queue, stage, ret>>
       ELSE \* _DispatchMethodAfterOpen
            /\ path' = [path EXCEPT ![c] = "early"]
            /\ ret' = [ret EXCEPT ![c] = Pending]
            /\ queue' = Append(queue, c)
            /\ stage' = [stage EXCEPT ![c] = "queued"]
            /\ UNCHANGED <<callAr, spawned>>
  /\ Note(CallCheck(c, f, TRUE, P(c))) /\ CallUpd(c, f, TRUE, P(c))
  /\ UNCHANGED <<openSt, tgt, noted, unw, sinkMsgs>>

\* the result object the caller holds / waits on
Held(c) == IF path[c] = "direct" THEN callAr[c] ELSE ret[c]

Returned(c) ==
  /\ caller[c] = "returning"
  /\ caller' = [caller EXCEPT ![c] = "waiting"]
  /\ IF form[c] = "async"
       THEN LET k == IF Held(c).st = "set" THEN "completed" ELSE "pending"
            IN Note(RetCheck(c, k)) /\ RetUpd(c, k)
       ELSE UNCHANGED <<cvars, viol>>
  /\ UNCHANGED <<openSt, queue, path, form, stage, tgt, callAr, noted, unw, ret, spawned, sinkMsgs>>

\* the caller's greenlet / observer is switched to with the outcome
Finish(c, ar) ==
  /\ caller' = [caller EXCEPT ![c] = "finished"]
  /\ Note(ResultCheck(c, ar.kind, ar.tok)) /\ ResultUpd(c, ar.kind, ar.tok)

\* ---------------------------------------------------------------- the open result
OpenSet ==
  /\ ~Returning /\ openSt = "pending"
  /\ openSt' = "set"
  /\ UNCHANGED <<queue, path, form, caller, stage, tgt, callAr, noted, unw, ret, spawned, sinkMsgs, cvars, viol>>

InQueue == {queue[i] : i \in DOMAIN queue}
OpenNotify ==
  /\ ~Returning /\ openSt = "set"
  /\ openSt' = "notified"
  /\ queue' = <<>>
  \* every waiting call: `if not ret.ready(): _DispatchMethod(...)`
  /\ callAr' = [c \in Cs |-> IF c \in InQueue THEN Pending ELSE callAr[c]]
  /\ spawned' = spawned \cup InQueue
  /\ stage' = [c \in Cs |-> IF c \in InQueue THEN (IF Design = "chain" THEN "cw" ELSE "linked") ELSE stage[c]]
  /\ tgt' = [c \in Cs |-> IF c \in InQueue /\ Design = "drain" /\ SharedClosure
                            THEN queue[Len(queue)] ELSE tgt[c]]
  /\ UNCHANGED <<path, form, caller, noted, unw, ret, sinkMsgs, cvars, viol>>

\* ---------------------------------------------------------------- chain: Unwrap
CwNotify(c) ==
  /\ ~Returning /\ stage[c] = "cw"
  /\ stage' = [stage EXCEPT ![c] = IF callAr[c].st = "set" THEN "target" ELSE "linked"]
  \* the call result is already set: propagated at once (PeelLosesError: a failed one as the value None,
  \* token 0, which is no answer's token)
  /\ unw' = [unw EXCEPT ![c] = IF callAr[c].st # "set" THEN Pending
                                ELSE IF PeelLosesError /\ callAr[c].kind = "raise" THEN SetTo("value", 0)
                                ELSE callAr[c]]
  /\ UNCHANGED <<openSt, queue, path, form, caller, tgt, callAr, noted, ret, spawned, sinkMsgs, cvars, viol>>

\* ---------------------------------------------------------------- the sink
SinkRecv(c) ==
  /\ ~Returning /\ c \in spawned
  /\ spawned' = spawned \ {c}
  /\ sinkMsgs' = Append(sinkMsgs, c)
  /\ Note(RecvCheck(Len(sinkMsgs) + 1, P(c))) /\ RecvUpd(Len(sinkMsgs) + 1, P(c))
  /\ UNCHANGED <<openSt, queue, path, form, caller, stage, tgt, callAr, noted, unw, ret>>

Reply(s, k) ==
  /\ ~Returning /\ s \in DOMAIN sinkMsgs /\ callAr[sinkMsgs[s]].st = "pending"
  /\ callAr' = [callAr EXCEPT ![sinkMsgs[s]] = SetTo(k, s)]
  /\ Note(ReplyCheck(s, k, s)) /\ ReplyUpd(s, k, s)
  /\ UNCHANGED <<openSt, queue, path, form, caller, stage, tgt, noted, unw, ret, spawned, sinkMsgs>>

\* ---------------------------------------------------------------- completion
\* complete(call_ar): `if ret.ready(): return` else copy value / exception
Completed(c) == LET src == IF Design = "chain" THEN unw[c] ELSE callAr[c]
                IN [ret EXCEPT ![tgt[c]] = IF @.st = "pending" THEN src ELSE @]

CallArNotify(c) ==
  /\ ~Returning /\ callAr[c].st = "set" /\ ~noted[c]
  /\ \/ /\ path[c] = "direct" /\ caller[c] = "waiting"
        /\ noted' = [noted EXCEPT ![c] = TRUE]
        /\ Finish(c, callAr[c])
        /\ UNCHANGED <<stage, unw, ret>>
     \/ /\ path[c] = "early" /\ stage[c] = "linked" /\ Design = "chain"
        /\ noted' = [noted EXCEPT ![c] = TRUE]
        /\ stage' = [stage EXCEPT ![c] = "target"]
        /\ unw' = [unw EXCEPT ![c] = callAr[c]]
        /\ UNCHANGED <<caller, ret, cvars, viol>>
     \/ /\ path[c] = "early" /\ stage[c] = "linked" /\ Design = "drain"
        /\ noted' = [noted EXCEPT ![c] = TRUE]
        /\ stage' = [stage EXCEPT ![c] = "completed"]
        /\ ret' = Completed(c)
        /\ UNCHANGED <<caller, unw, cvars, viol>>
  /\ UNCHANGED <<openSt, queue, path, form, tgt, callAr, spawned, sinkMsgs>>

TargetNotify(c) ==
  /\ ~Returning /\ stage[c] = "target"
  /\ stage' = [stage EXCEPT ![c] = "completed"]
  /\ ret' = Completed(c)
  /\ UNCHANGED <<openSt, queue, path, form, caller, tgt, callAr, noted, unw, spawned, sinkMsgs, cvars, viol>>

RetNotify(c) ==
  /\ ~Returning /\ path[c] = "early" /\ ret[c].st = "set" /\ caller[c] = "waiting"
  /\ Finish(c, ret[c])
  /\ UNCHANGED <<openSt, queue, path, form, stage, tgt, callAr, noted, unw, ret, spawned, sinkMsgs>>

Next ==
  \/ \E c \in Cs, f \in {"sync", "async"} : DoCall(c, f)
  \/ \E c \in Cs : Returned(c) \/ CwNotify(c) \/ SinkRecv(c) \/ CallArNotify(c) \/ TargetNotify(c) \/ RetNotify(c)
  \/ OpenSet \/ OpenNotify
  \/ \E s \in 1..NCalls, k \in Kinds : Reply(s, k)

Spec == Init /\ [][Next]_vars

\* ---------------------------------------------------------------- invariants
NoViolation == viol = "ok"

\* nothing but the environment (a new call, the open result, an answer) can move
Quiescent ==
  /\ ~Returning /\ openSt # "set" /\ spawned = {}
  /\ \A c \in Cs : /\ stage[c] \notin {"cw", "target"}
                   /\ ~(callAr[c].st = "set" /\ ~noted[c] /\ (path[c] = "direct" \/ stage[c] = "linked"))
                   /\ ~(path[c] = "early" /\ ret[c].st = "set" /\ caller[c] = "waiting")
\* the End clause of the call machine holds whenever the loop is quiescent
QuiescentOK == Quiescent => EndCheck(IF openSt = "pending" THEN 0 ELSE 1) = "ok"

TypeOK ==
  /\ openSt \in {"pending", "set", "notified"}
  /\ \A c \in Cs : /\ path[c] \in {"none", "direct", "early"}
                   /\ stage[c] \in {"none", "queued", "cw", "linked", "target", "completed"}
                   /\ (path[c] = "direct") => (stage[c] = "none" /\ ret[c] = NoAr)
                   /\ tgt[c] \in Cs
  /\ InQueue = {c \in Cs : stage[c] = "queued"}
  /\ (openSt # "pending") => (queue = <<>> \/ openSt = "set")
=============================================================================
