SPECIFICATION Spec
CONSTANTS
  Kinds <- K_cc
  Tuples <- T2
  Amts = {1, 2}
  GVals = {1}
  SVals = {1}
  Cap = 2
  MaxOps = 3
  Sels = {"default", "tuple"}
  SourceEq = TRUE
  Interleave = FALSE
  MaxAge = 2
  MaxNow = 0
  Ticks = {1}
  Design = "shared"
VIEW View
INVARIANT NoSumViolation
CHECK_DEADLOCK FALSE
