SPECIFICATION Spec
CONSTANTS
  NCalls = 3
  Design = "drain"
  SharedClosure = TRUE
  Kinds = {"value", "raise"}
INVARIANT NoViolation
INVARIANT QuiescentOK
INVARIANT TypeOK
CHECK_DEADLOCK FALSE
