-------------------------- MODULE TBinaryWireCheck --------------------------
(***************************************************************************)
(* C14 -- bounded self-consistency of the reference codec TBinaryWire and  *)
(* the reply classification as an exhaustive case table.                   *)
(*                                                                         *)
(* One state per probe (Init picks it), the invariants are the laws:       *)
(*  IntLaw      RdI32(I32B(n)) = n at the byte boundaries (both signs)     *)
(*  Utf8Law     encoded length and lead byte per code-point range          *)
(*  ValueLaw    Skip walks exactly over EncVal(v) for nested values        *)
(*  MsgLaw      ParseMsg inverts MsgBegin + EncFields (type, name, seqid,  *)
(*              ids, wire types, spans)                                    *)
(*  ClassLaw    Classify over every (method kind, message type, set of     *)
(*              fields present) agrees with the case table of the property *)
(*  FrameLaw    FrameAt returns the next 4 + sz bytes of a stream          *)
(*  RunLaw      a text / list / byte stream in run form encodes exactly as *)
(*              the sequence it stands for (patterns x counts, several     *)
(*              runs, empty runs, multi-byte code points)                  *)
(***************************************************************************)
EXTENDS TBinaryWire

VARIABLE probe

Ints == {0, 1, -1, 127, 128, 255, 256, -128, -129, 65535, 65536, -65536, 16777215, 16777216, -16777216,
         2147483647, -2147483647, -2147483647 - 1, 305419896}
Cps == {0, 65, 127, 128, 233, 2047, 2048, 8364, 65535, 65536, 128512, 1114111}

Str(cs) == [t |-> "str", v |-> cs]
I32(n) == [t |-> "i32", v |-> n]
Item == [t |-> "struct", f |-> <<[id |-> 1, v |-> I32(7)], [id |-> 2, v |-> Str(<<104, 233>>)],
                                 [id |-> 3, v |-> [t |-> "i64", v |-> <<255, 0, 0, 0, 0, 0, 0, 1>>]],
                                 [id |-> 4, v |-> [t |-> "list", et |-> "str", v |-> <<Str(<<>>), Str(<<97>>)>>]],
                                 [id |-> 5, v |-> [t |-> "bool", v |-> 1]]>>]
Empty == [t |-> "struct", f |-> <<>>]
Values == {I32(-2), Str(<<>>), Str(<<8364, 97>>), Item, Empty,
           [t |-> "struct", f |-> <<[id |-> 1, v |-> Item], [id |-> 9, v |-> [t |-> "none"]]>>],
           [t |-> "list", et |-> "struct", v |-> <<Item, Empty>>],
           [t |-> "list", et |-> "i32", v |-> <<>>]}

\* reply probes: method kinds x message types x fields present
ProbeMethods == {"echo", "ping", "put", "reset"}
FieldIds == {0, 1, 2, 77}
FieldVal(m, id) ==
  IF id = 0 THEN (IF m = "put" THEN Item ELSE IF m = "echo" THEN Str(<<104, 105>>) ELSE I32(5))
  ELSE IF id = 77 THEN I32(123456)
  ELSE [t |-> "struct", f |-> <<[id |-> 1, v |-> Str(<<119>>)], [id |-> 2, v |-> I32(3)]>>]

\* run-form probes: up to two runs of short patterns
Pats == {<<>>, <<97>>, <<252>>, <<97, 8364>>, <<128512, 98, 233>>}
Runs == {<<>>} \cup {<<[p |-> p1, n |-> n1]>> : p1 \in Pats, n1 \in 0..3}
        \cup {<<[p |-> p1, n |-> n1], [p |-> p2, n |-> n2]>> : p1 \in Pats, p2 \in {<<98>>, <<233, 99>>}, n1 \in {1, 3}, n2 \in {0, 2}}

Init ==
  probe \in [k : {"int"}, n : Ints] \cup [k : {"runs"}, r : Runs] \cup [k : {"cp"}, c : Cps] \cup [k : {"val"}, v : Values]
            \cup [k : {"reply"}, m : ProbeMethods, mt : 1..4, ids : SUBSET FieldIds, seq : {0, 7, -1}]
            \cup [k : {"frame"}, sz : 0..3, extra : 0..2, cut : 0..9]
Next == UNCHANGED probe
Spec == Init /\ [][Next]_probe

IntLaw == probe.k = "int" => /\ Len(I32B(probe.n)) = 4
                            /\ \A i \in 1..4 : I32B(probe.n)[i] \in 0..255
                            /\ RdI32(I32B(probe.n), 0) = probe.n
                            /\ RdI32(<<9>> \o I32B(probe.n), 1) = probe.n

Utf8Law == probe.k = "cp" =>
  LET u == Utf8Of(probe.c) c == probe.c IN
  /\ Len(u) = (IF c < 128 THEN 1 ELSE IF c < 2048 THEN 2 ELSE IF c < 65536 THEN 3 ELSE 4)
  /\ \A i \in DOMAIN u : u[i] \in 0..255
  /\ \A i \in 2..Len(u) : u[i] \in 128..191
  /\ (Len(u) = 1 => u[1] < 128) /\ (Len(u) = 2 => u[1] \in 194..223)
  /\ (Len(u) = 3 => u[1] \in 224..239) /\ (Len(u) = 4 => u[1] \in 240..244)
  /\ Utf8(<<c, 65, c>>) = u \o <<65>> \o u

ValueLaw == probe.k = "val" =>
  LET b == EncVal(probe.v) IN
  /\ Encodable(probe.v)
  /\ Skip(b, 0, TypeCode(probe.v.t)) = Len(b)
  /\ Skip(<<1, 2>> \o b \o <<3>>, 2, TypeCode(probe.v.t)) = Len(b) + 2
  /\ (Len(b) > 0 => Skip(SubSeq(b, 1, Len(b) - 1), 0, TypeCode(probe.v.t)) = -1)     \* truncated

SortedIds(S) == SortSeq(SetToSeq(S), <)
ProbeFields == LET ids == SortedIds(probe.ids) IN [i \in DOMAIN ids |-> [id |-> ids[i], v |-> FieldVal(probe.m, ids[i])]]
ProbePayload == MsgBegin(Idl[probe.m].nm, probe.mt, probe.seq) \o EncFields(ProbeFields)

MsgLaw == probe.k = "reply" =>
  LET pm == ParseMsg(ProbePayload) f == ProbeFields IN
  /\ pm.ok /\ pm.mtype = probe.mt /\ pm.name = Idl[probe.m].nm /\ pm.seq = probe.seq
  /\ pm.end = Len(ProbePayload)
  /\ Len(pm.fields) = Len(f)
  /\ \A i \in DOMAIN f : /\ pm.fields[i].id = f[i].id
                         /\ pm.fields[i].ty = TypeCode(f[i].v.t)
                         /\ Span(ProbePayload, pm.fields[i]) = EncVal(f[i].v)
  /\ ~ParseMsg(SubSeq(ProbePayload, 1, Len(ProbePayload) - 1)).ok        \* truncated payload

\* the case table of the property, written independently of Classify
ClassLaw == probe.k = "reply" =>
  LET c == Classify(probe.m, ProbePayload)
      void == probe.m \in {"ping", "reset"}
      declared == IF probe.m = "put" THEN {1, 2} ELSE IF probe.m = "reset" THEN {1} ELSE {}
      raised == probe.ids \cap declared
  IN CASE probe.mt = TException ->
            c.kind = "error" /\ c.cls = "TApplicationException" /\ c.bytes = EncFields(ProbeFields)
       [] probe.mt \in {TCall, TOneway} -> c.kind = "unspecified"
       [] probe.mt = TReply /\ ~void /\ 0 \in probe.ids ->
            c.kind = "value" /\ c.bytes = EncVal(FieldVal(probe.m, 0))
       [] probe.mt = TReply /\ (void \/ 0 \notin probe.ids) /\ Cardinality(raised) = 1 ->
            c.kind = "error" /\ c.cls = (IF raised = {1} THEN "Boom" ELSE "Bust")
            /\ c.bytes = EncVal(FieldVal(probe.m, 1))
       [] probe.mt = TReply /\ (void \/ 0 \notin probe.ids) /\ Cardinality(raised) = 2 -> c.kind = "unspecified"
       [] probe.mt = TReply /\ void /\ raised = {} -> c.kind = "none"
       [] OTHER -> c.kind = "unspecified"

RunLaw == probe.k = "runs" =>
  LET cps == ExpandRuns(probe.r)
      plain == Str(cps)
      runs == [t |-> "str", v |-> <<>>, r |-> probe.r]
      \* the same runs read as a list of texts: every code point becomes a one-character element
      AsElems(p) == [i \in DOMAIN p |-> Str(<<p[i]>>)]
      lplain == [t |-> "list", et |-> "str", v |-> AsElems(cps)]
      lruns == [t |-> "list", et |-> "str", v |-> <<>>,
                r |-> [i \in DOMAIN probe.r |-> [p |-> AsElems(probe.r[i].p), n |-> probe.r[i].n]]]
  IN /\ Len(cps) = RunsLen(probe.r)
     /\ Utf8Runs(probe.r) = Utf8(cps)
     /\ EncVal(runs) = EncVal(plain)
     /\ EncVal(lruns) = EncVal(lplain)
     /\ Encodable(runs) /\ Encodable(lruns)
     /\ Skip(EncVal(lruns), 0, TList) = Len(EncVal(lplain))

FrameLaw == probe.k = "frame" =>
  LET body == [i \in 1..probe.sz |-> 16 + i]
      full == I32B(probe.sz) \o body \o [i \in 1..probe.extra |-> 99]
      s == SubSeq(full, 1, IF probe.cut < Len(full) THEN probe.cut ELSE Len(full))
      fr == FrameAt(s, 0)
  IN IF Len(s) >= 4 + probe.sz
       THEN fr.kind = "frame" /\ fr.body = body /\ fr.next = 4 + probe.sz
       ELSE fr.kind = "truncated"
=============================================================================
