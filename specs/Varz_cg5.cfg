SPECIFICATION Spec
CONSTANTS
  Kinds <- K_cg
  Tuples <- T3
  Amts = {1, 2}
  GVals = {1, 2}
  SVals = {1, 2, 3}
  Cap = 2
  MaxOps = 5
  Sels = {"default", "tuple"}
  SourceEq = TRUE
  Interleave = FALSE
  MaxAge = 2
  MaxNow = 0
  Ticks = {1}
  Design = "tree"
VIEW View
INVARIANT NoViolation
INVARIANT Structural
INVARIANT Bounded
CHECK_DEADLOCK FALSE
