---------------------------- MODULE MuxStreamAbs ----------------------------
(***************************************************************************)
(* C13, stream mode -- "every frame written to a ThriftMux connection ..."  *)
(* judged on the byte stream of a LIVE connection.                          *)
(*                                                                         *)
(* Observables of one connection (one trace = one connection):              *)
(*   Sup(ctx, payload)  a dispatch is supplied to the client stack: the    *)
(*                      context entries the caller asked for (properties,  *)
(*                      client id, deadline) and the Thrift call bytes;    *)
(*                      the tag is the transport's choice, not an input    *)
(*   SupDisc(payload)   a discard is supplied: the timeout of the call     *)
(*                      with this Thrift call is signalled to the          *)
(*                      transport (the tag it names is the one the         *)
(*                      transport gave that call: the tag of its Tdispatch *)
(*                      frame)                                             *)
(*   Bytes(data)        the connection accepted these bytes, in this order *)
(*                      (what the peer's TCP stream will deliver)          *)
(*   Closed(mid)        the connection was closed / failed; mid = 1 iff a  *)
(*                      write was in progress (a writer was blocked in the *)
(*                      socket, or a send failed) at that moment           *)
(*   End                end of observation: every write that was started   *)
(*                      on a still-open connection has been let through    *)
(*                                                                         *)
(* The machine keeps the not yet framed tail of the stream (sbuf) and      *)
(* parses complete frames off its head as bytes arrive (the peer's view):  *)
(*   C13.frameLength   a 4-byte big-endian length >= 4 (type + tag) is     *)
(*                     followed by exactly that many bytes: at End no      *)
(*                     partial frame may remain unless the connection was  *)
(*                     closed in the middle of a write                     *)
(*   C13.type          the type byte is that of a message kind a client    *)
(*                     supplies: Tdispatch, Tdiscarded, Tping              *)
(*   Tdispatch         the body decodes (contextLength, dstDtab, ...: the  *)
(*                     clauses of MuxWire!DispCheck) and is, byte for byte,*)
(*                     the encoding of ONE supplied dispatch under the     *)
(*                     frame's tag (C13.payload: the Thrift call on the    *)
(*                     wire is none of the supplied ones);                 *)
(*   C13.suppliedOnce  a supplied dispatch is on the wire at most once (a  *)
(*                     second frame with its contents was not supplied)    *)
(*   C13.discardTag    a Tdiscarded names the tag of an earlier Tdispatch  *)
(*                     frame of this connection, and (when the driver      *)
(*                     observes the supplied discards) of one that carried *)
(*                     a call whose discard was supplied                   *)
(*   C13.discardOnce   ... and that no earlier Tdiscarded has named: each  *)
(*                     supplied discard is on the wire at most once (a     *)
(*                     tag may be named again only after it was given to   *)
(*                     another call that timed out as well)                *)
(*   C13.discardReason ... followed by a reason (UTF-8 text)               *)
(*   Tping             MuxWire!PingCheck: empty body                       *)
(* Supplied payloads are pairwise distinct within a trace (harness.input), *)
(* so a frame is attributed to a supplied dispatch by its Thrift call.     *)
(* Not judged here (other properties): which tag is chosen (C11), whether  *)
(* and when a supplied message (dispatch or discard) is written at all,    *)
(* and the order among discards (C12, C02).                                *)
(***************************************************************************)
EXTENDS MuxWire

VARIABLES sbuf,      \* bytes accepted by the connection that are not yet a complete frame
          sup,       \* supplied dispatches, in order: [ctx, payload]
          used,      \* indices of sup already seen in a Tdispatch frame
          dtags,     \* <<index in sup, tag>> of the Tdispatch frames seen so far
          tdue,      \* indices of sup whose discard was supplied (timeout signalled to the transport)
          named,     \* indices of sup already named by a Tdiscarded frame
          strictD,   \* TRUE iff the driver observes supplied discards (else only "tag of an earlier Tdispatch")
          sclosed    \* "open" | "closed" | "closedMid"
svars == <<sbuf, sup, used, dtags, tdue, named, strictD, sclosed>>

SInitS(strict) == /\ sbuf = <<>> /\ sup = <<>> /\ used = {} /\ dtags = {} /\ tdue = {} /\ named = {}
                  /\ strictD = strict /\ sclosed = "open"
SInit == SInitS(TRUE)

\* ------------------------------------------------------------ one complete frame
\* f is a complete frame (its length prefix equals Len(f) - 4).  Returns [v, used, dtags, named].
FrameJudge(f, u, dt, nm) ==
  LET d    == DecFrame(f)
      bad(c) == [v |-> c, used |-> u, dtags |-> dt, named |-> nm]
  IN
  IF d.type = TdispatchT THEN
    LET b == DecDispatch(d.body) IN
    IF ~b.ok /\ b.stage \in {"count", "ctx"} THEN bad("C13.contextLength")
    ELSE IF ~b.ok THEN bad("C13.dstDtab")
    ELSE LET cand == {j \in DOMAIN sup : sup[j].payload = b.payload} IN
      IF cand = {} THEN bad("C13.payload")
      ELSE LET j   == CHOOSE x \in cand : TRUE
               chk == DispCheck([tag |-> d.tag, ctx |-> sup[j].ctx, payload |-> sup[j].payload,
                                 frame |-> f, raised |-> "none"])
           IN IF chk # "ok" THEN bad(chk)
              ELSE IF j \in u THEN bad("C13.suppliedOnce")
              ELSE [v |-> "ok", used |-> u \cup {j}, dtags |-> dt \cup {<<j, d.tag>>}, named |-> nm]
  ELSE IF d.type = TdiscardedT THEN
    IF Len(d.body) < 3 THEN bad("C13.discardTag")
    ELSE LET which == RdU24(d.body, 1)
             sent  == {j \in DOMAIN sup : <<j, which>> \in dt}     \* calls dispatched under this tag so far
             due   == sent \cap tdue                               \* ... whose discard was supplied
             fresh == due \ nm                                     \* ... and not yet named by a Tdiscarded
         IN
         IF sent = {} THEN bad("C13.discardTag")
         ELSE IF ~Utf8Decode(SubSeq(d.body, 4, Len(d.body))).ok THEN bad("C13.discardReason")
         ELSE IF ~strictD THEN [v |-> "ok", used |-> u, dtags |-> dt, named |-> nm]
         ELSE IF due = {} THEN bad("C13.discardTag")
         ELSE IF fresh = {} THEN bad("C13.discardOnce")
         ELSE [v |-> "ok", used |-> u, dtags |-> dt,
               named |-> nm \cup {CHOOSE j \in fresh : \A x \in fresh : j <= x}]
  ELSE IF d.type = TpingT THEN
    [v |-> PingCheck([tag |-> -1, frame |-> f, raised |-> "none"]), used |-> u, dtags |-> dt, named |-> nm]
  ELSE bad("C13.type")

\* ------------------------------------------------------------ framing of the stream
\* Take complete frames off the head of a.rest while there are any (each step at most one).
StreamStep(a, i) ==
  IF a.v # "ok" \/ Len(a.rest) < 4 THEN a
  ELSE LET size == RdI32(a.rest, 1) IN
    IF size < 4 THEN [a EXCEPT !.v = "C13.frameLength"]      \* no room for the type byte and the tag
    ELSE IF Len(a.rest) < 4 + size THEN a                     \* incomplete: more bytes may follow
    ELSE LET r == FrameJudge(SubSeq(a.rest, 1, 4 + size), a.used, a.dtags, a.named)
         IN [rest |-> SubSeq(a.rest, 5 + size, Len(a.rest)), used |-> r.used, dtags |-> r.dtags,
             named |-> r.named, v |-> r.v]

Parse(data) ==
  LET all == sbuf \o data
  IN FoldLeft(StreamStep, [rest |-> all, used |-> used, dtags |-> dtags, named |-> named, v |-> "ok"],
              Iota((Len(all) \div 8) + 1))          \* a frame has at least 8 bytes

\* ------------------------------------------------------------ events
SupCheck(ctx, payload) ==
  IF ~(IsBytes(payload) /\ WellFormedCtx(ctx)) THEN "harness.input"
  ELSE IF \E j \in DOMAIN sup : sup[j].payload = payload THEN "harness.input"   \* payloads identify the call
  ELSE "ok"
SupUpd(ctx, payload) ==
  /\ sup' = Append(sup, [ctx |-> ctx, payload |-> payload])
  /\ UNCHANGED <<sbuf, used, dtags, tdue, named, strictD, sclosed>>

\* A discard is supplied for the call with this Thrift call (it must have been supplied as a dispatch).
SupDiscCheck(payload) ==
  IF ~IsBytes(payload) \/ ~(\E j \in DOMAIN sup : sup[j].payload = payload) THEN "harness.input" ELSE "ok"
SupDiscUpd(payload) ==
  /\ tdue' = tdue \cup {j \in DOMAIN sup : sup[j].payload = payload}
  /\ UNCHANGED <<sbuf, sup, used, dtags, named, strictD, sclosed>>

BytesCheck(data) ==
  IF ~IsBytes(data) \/ Len(data) = 0 THEN "harness.input"
  ELSE IF sclosed # "open" THEN "harness.bytesAfterClose"
  ELSE Parse(data).v
BytesUpd(data) ==
  LET p == Parse(data)
  IN /\ sbuf' = p.rest /\ used' = p.used /\ dtags' = p.dtags /\ named' = p.named
     /\ UNCHANGED <<sup, tdue, strictD, sclosed>>

ClosedCheck(mid) == IF mid \notin {0, 1} THEN "harness.input" ELSE "ok"
ClosedUpd(mid) ==
  /\ sclosed' = IF sclosed # "open" THEN sclosed ELSE IF mid = 1 THEN "closedMid" ELSE "closed"
  /\ UNCHANGED <<sbuf, sup, used, dtags, tdue, named, strictD>>

\* ... followed by exactly that many bytes: a frame that was started is completed, unless the
\* connection was closed / failed in the middle of the write.
EndCheck == IF Len(sbuf) # 0 /\ sclosed # "closedMid" THEN "C13.frameLength" ELSE "ok"
EndUpd   == UNCHANGED svars
=============================================================================
