---------------------------- MODULE MuxStreamAbs ----------------------------
(***************************************************************************)
(* C13, stream mode -- "every frame written to a ThriftMux connection ..."  *)
(* judged on the byte stream of a LIVE connection.                          *)
(*                                                                         *)
(* Observables of one connection (one trace = one connection):              *)
(*   Sup(ctx, payload)  a dispatch is supplied to the client stack: the    *)
(*                      context entries the caller asked for (properties,  *)
(*                      client id, deadline) and the Thrift call bytes;    *)
(*                      the tag is the transport's choice, not an input    *)
(*   Bytes(data)        the connection accepted these bytes, in this order *)
(*                      (what the peer's TCP stream will deliver)          *)
(*   Closed(mid)        the connection was closed / failed; mid = 1 iff a  *)
(*                      write was in progress (a writer was blocked in the *)
(*                      socket, or a send failed) at that moment           *)
(*   End                end of observation: every write that was started   *)
(*                      on a still-open connection has been let through    *)
(*                                                                         *)
(* The machine keeps the not yet framed tail of the stream (sbuf) and      *)
(* parses complete frames off its head as bytes arrive (the peer's view):  *)
(*   C13.frameLength   a 4-byte big-endian length >= 4 (type + tag) is     *)
(*                     followed by exactly that many bytes: at End no      *)
(*                     partial frame may remain unless the connection was  *)
(*                     closed in the middle of a write                     *)
(*   C13.type          the type byte is that of a message kind a client    *)
(*                     supplies: Tdispatch, Tdiscarded, Tping              *)
(*   Tdispatch         the body decodes (contextLength, dstDtab, ...: the  *)
(*                     clauses of MuxWire!DispCheck) and is, byte for byte,*)
(*                     the encoding of ONE supplied dispatch under the     *)
(*                     frame's tag (C13.payload: the Thrift call on the    *)
(*                     wire is none of the supplied ones);                 *)
(*   C13.suppliedOnce  a supplied dispatch is on the wire at most once (a  *)
(*                     second frame with its contents was not supplied)    *)
(*   C13.discardTag    a Tdiscarded names the tag of an earlier Tdispatch  *)
(*                     frame of this connection                            *)
(*   C13.discardReason ... followed by a reason (UTF-8 text)               *)
(*   Tping             MuxWire!PingCheck: empty body                       *)
(* Supplied payloads are pairwise distinct within a trace (harness.input), *)
(* so a frame is attributed to a supplied dispatch by its Thrift call.     *)
(* Not judged here (other properties): which tag is chosen (C11), whether  *)
(* and when a supplied message is written at all (C12, C02).               *)
(***************************************************************************)
EXTENDS MuxWire

VARIABLES sbuf,      \* bytes accepted by the connection that are not yet a complete frame
          sup,       \* supplied dispatches, in order: [ctx, payload]
          used,      \* indices of sup already seen in a Tdispatch frame
          dtags,     \* tags of the Tdispatch frames seen so far
          sclosed    \* "open" | "closed" | "closedMid"
svars == <<sbuf, sup, used, dtags, sclosed>>

SInit == /\ sbuf = <<>> /\ sup = <<>> /\ used = {} /\ dtags = {} /\ sclosed = "open"

\* ------------------------------------------------------------ one complete frame
\* f is a complete frame (its length prefix equals Len(f) - 4).  Returns [v, used, dtags].
FrameJudge(f, u, dt) ==
  LET d    == DecFrame(f)
      bad(c) == [v |-> c, used |-> u, dtags |-> dt]
  IN
  IF d.type = TdispatchT THEN
    LET b == DecDispatch(d.body) IN
    IF ~b.ok /\ b.stage \in {"count", "ctx"} THEN bad("C13.contextLength")
    ELSE IF ~b.ok THEN bad("C13.dstDtab")
    ELSE LET cand == {j \in DOMAIN sup : sup[j].payload = b.payload} IN
      IF cand = {} THEN bad("C13.payload")
      ELSE LET j   == CHOOSE x \in cand : TRUE
               chk == DispCheck([tag |-> d.tag, ctx |-> sup[j].ctx, payload |-> sup[j].payload,
                                 frame |-> f, raised |-> "none"])
           IN IF chk # "ok" THEN bad(chk)
              ELSE IF j \in u THEN bad("C13.suppliedOnce")
              ELSE [v |-> "ok", used |-> u \cup {j}, dtags |-> dt \cup {d.tag}]
  ELSE IF d.type = TdiscardedT THEN
    IF Len(d.body) < 3 \/ RdU24(d.body, 1) \notin dt THEN bad("C13.discardTag")
    ELSE IF ~Utf8Decode(SubSeq(d.body, 4, Len(d.body))).ok THEN bad("C13.discardReason")
    ELSE [v |-> "ok", used |-> u, dtags |-> dt]
  ELSE IF d.type = TpingT THEN
    [v |-> PingCheck([tag |-> -1, frame |-> f, raised |-> "none"]), used |-> u, dtags |-> dt]
  ELSE bad("C13.type")

\* ------------------------------------------------------------ framing of the stream
\* Take complete frames off the head of a.rest while there are any (each step at most one).
StreamStep(a, i) ==
  IF a.v # "ok" \/ Len(a.rest) < 4 THEN a
  ELSE LET size == RdI32(a.rest, 1) IN
    IF size < 4 THEN [a EXCEPT !.v = "C13.frameLength"]      \* no room for the type byte and the tag
    ELSE IF Len(a.rest) < 4 + size THEN a                     \* incomplete: more bytes may follow
    ELSE LET r == FrameJudge(SubSeq(a.rest, 1, 4 + size), a.used, a.dtags)
         IN [rest |-> SubSeq(a.rest, 5 + size, Len(a.rest)), used |-> r.used, dtags |-> r.dtags, v |-> r.v]

Parse(data) ==
  LET all == sbuf \o data
  IN FoldLeft(StreamStep, [rest |-> all, used |-> used, dtags |-> dtags, v |-> "ok"],
              Iota((Len(all) \div 8) + 1))          \* a frame has at least 8 bytes

\* ------------------------------------------------------------ events
SupCheck(ctx, payload) ==
  IF ~(IsBytes(payload) /\ WellFormedCtx(ctx)) THEN "harness.input"
  ELSE IF \E j \in DOMAIN sup : sup[j].payload = payload THEN "harness.input"   \* payloads identify the call
  ELSE "ok"
SupUpd(ctx, payload) ==
  /\ sup' = Append(sup, [ctx |-> ctx, payload |-> payload])
  /\ UNCHANGED <<sbuf, used, dtags, sclosed>>

BytesCheck(data) ==
  IF ~IsBytes(data) \/ Len(data) = 0 THEN "harness.input"
  ELSE IF sclosed # "open" THEN "harness.bytesAfterClose"
  ELSE Parse(data).v
BytesUpd(data) ==
  LET p == Parse(data)
  IN /\ sbuf' = p.rest /\ used' = p.used /\ dtags' = p.dtags
     /\ UNCHANGED <<sup, sclosed>>

ClosedCheck(mid) == IF mid \notin {0, 1} THEN "harness.input" ELSE "ok"
ClosedUpd(mid) ==
  /\ sclosed' = IF sclosed # "open" THEN sclosed ELSE IF mid = 1 THEN "closedMid" ELSE "closed"
  /\ UNCHANGED <<sbuf, sup, used, dtags>>

\* ... followed by exactly that many bytes: a frame that was started is completed, unless the
\* connection was closed / failed in the middle of the write.
EndCheck == IF Len(sbuf) # 0 /\ sclosed # "closedMid" THEN "C13.frameLength" ELSE "ok"
EndUpd   == UNCHANGED svars
=============================================================================
