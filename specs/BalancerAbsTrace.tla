--------------------------- MODULE BalancerAbsTrace ---------------------------
(* Batched validation of implementation traces against BalancerAbs           *)
(* (C03, C04, C05; env PROP selects the property whose clauses are judged).  *)
EXTENDS BalancerAbs, Json

Traces == ndJsonDeserialize(IOEnv.TRACE_FILE)

VARIABLES abs, tid, l, verdict
tvars == <<abs, tid, l, verdict>>

Ev == Traces[tid].ev

TInit == /\ tid \in 1..Len(Traces)
         /\ l = 1
         /\ verdict = "ok"
         /\ abs = AInit0(Traces[tid].cfg.kind, ToSet(Traces[tid].cfg.s0))

TNext == /\ verdict = "ok"
         /\ l <= Len(Ev)
         /\ LET e == Ev[l]
                chk == CheckOf(abs, e)
            IN IF chk = "ok"
               THEN abs' = UpdOf(abs, e) /\ l' = l + 1 /\ verdict' = "ok"
               ELSE verdict' = chk /\ l' = l /\ abs' = abs
         /\ UNCHANGED tid

TSpec == TInit /\ [][TNext]_tvars

Done == verdict # "ok" \/ l > Len(Ev)
Report == Done => PrintT(<<"V", tid, l - 1, verdict>>)
=============================================================================
