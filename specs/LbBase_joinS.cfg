SPECIFICATION Spec
CONSTANTS
  Eps = {e1, e2}
  MaxNotes = 3
  None = None
  Calls = {}
  JoinWaits = FALSE
  PopFirst = TRUE
  BadClose = {}
  GateBySubscription = FALSE
SYMMETRY Perms
INVARIANT NoDuplicateNodes
CHECK_DEADLOCK FALSE
