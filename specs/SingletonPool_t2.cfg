SPECIFICATION Spec
CONSTANTS
  MaxOpen = 3
  MaxClose = 3
  MaxReq = 2
  MaxConn = 3
  MaxFail = 1
  EagerRelease = FALSE
CONSTRAINT Bound
INVARIANT NoViolation
INVARIANT Structural
CHECK_DEADLOCK FALSE
