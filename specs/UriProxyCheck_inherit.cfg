SPECIFICATION PSpec
CONSTANTS
  MaxLen = 5
  Probes = {"cache"}
  LookupInherited = TRUE
  OneShot = FALSE
INVARIANT SplitJoin
INVARIANT TcpRoundTrip
INVARIANT ZkRoundTrip
INVARIANT OtherRejected
INVARIANT NamesLaw
INVARIANT CacheFaithful
INVARIANT ProviderIsValue
CHECK_DEADLOCK FALSE
