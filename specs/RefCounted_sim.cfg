SPECIFICATION Spec
CONSTANTS
  Holders = {1, 2, 3}
  Keys = {1, 2}
  MaxLen = 12
  MaxSinks = 6
INVARIANT NoViolation
INVARIANT Structural
CHECK_DEADLOCK FALSE
