SPECIFICATION TSpec
CONSTANTS
  Members = {1, 2, 3, 4, 5, 6}
  Initial = {}
  MinSize = 1
  MaxSize = 1
  MinL = 1
  MaxL = 2
  SC = 1000
  MaxOut = 1000
  MaxOpens = 16
  Jitter = TRUE
  Dynamic = TRUE
  EnvBudget = 0
  FlipStates = {}
  SteadyK = 0
  ChurnGetFirst = FALSE
INVARIANT Report
CHECK_DEADLOCK FALSE
