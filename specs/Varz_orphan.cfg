SPECIFICATION Spec
CONSTANTS
  Kinds <- K_t
  Tuples <- T2
  Amts = {1}
  GVals = {1}
  SVals = {1, 3}
  Cap = 2
  MaxOps = 4
  Sels = {"default", "tuple"}
  SourceEq = TRUE
  Interleave = FALSE
  MaxAge = 2
  MaxNow = 3
  Ticks = {1, 2}
  Design = "orphan"
VIEW View
INVARIANT NoSeriesViolation
CHECK_DEADLOCK FALSE
