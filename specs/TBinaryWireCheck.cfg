SPECIFICATION Spec
INVARIANT IntLaw
INVARIANT Utf8Law
INVARIANT ValueLaw
INVARIANT MsgLaw
INVARIANT ClassLaw
INVARIANT FrameLaw
INVARIANT RunLaw
CHECK_DEADLOCK FALSE
