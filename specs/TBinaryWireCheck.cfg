SPECIFICATION Spec
INVARIANT IntLaw
INVARIANT Utf8Law
INVARIANT ValueLaw
INVARIANT MsgLaw
INVARIANT ClassLaw
INVARIANT FrameLaw
CHECK_DEADLOCK FALSE
