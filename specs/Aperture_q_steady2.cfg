SPECIFICATION SteadySpec
CONSTANTS
  Members = {1, 2, 3}
  Initial = {1, 2, 3}
  MinSize = 1
  MaxSize = 3
  MinL = 1
  MaxL = 3
  SC = 2
  MaxOut = 4
  MaxOpens = 4
  Jitter = FALSE
  Dynamic = FALSE
  EnvBudget = 0
  FlipStates = {}
  SteadyK = 3
  ChurnGetFirst = TRUE
CONSTRAINT Bounded
INVARIANT Partition
PROPERTY Settles
CHECK_DEADLOCK FALSE
