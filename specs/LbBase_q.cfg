SPECIFICATION Spec
CONSTANTS
  Eps = {e1, e2, e3}
  MaxNotes = 5
  None = None
SYMMETRY Perms
INVARIANT NoViolation
INVARIANT QuietOK
INVARIANT Structural
CHECK_DEADLOCK FALSE
