------------------------------ MODULE KafkaCorr ------------------------------
(***************************************************************************)
(* Code-shaped model of the correlation-id lifecycle of the Kafka          *)
(* transport: scales/mux/sink.py MuxSocketTransportSink + TagPool with the *)
(* Kafka specifics of scales/kafka/sink.py KafkaTransportSink (the          *)
(* correlation id is the mux tag; _OnTimeout does nothing; there is no      *)
(* discard message), below scales/sink.py ClientTimeoutSink (C15, last     *)
(* sentence; the machine of KafkaCorrAbs runs in lock-step on ghosts).      *)
(*                                                                         *)
(*   pool    [next, free]     TagPool._next / _set                          *)
(*   tagmap  tag -> request   _tag_map (the request's sink stack)           *)
(*   tagkey  request -> tag|0 msg.properties[Tag.KEY] (0: popped / None)    *)
(*   hdr     request -> tag   the id packed into the request header         *)
(*   sendq   FIFO of requests _send_queue (serialized payloads)             *)
(*   evt, sub                 Deadline.EVENT_KEY signalled; the send loop   *)
(*                            subscribed timeout_proc                       *)
(*   tproc   set of requests  a deferred Observable notification is pending *)
(*   sent    request -> BOOLEAN  msg.properties[Tag.SENT_KEY]: the send loop *)
(*                            has written the request (5f62552)             *)
(*   stack   request -> "new" | "wait" | "done": the caller's sink stack    *)
(*                            (drained by the first response message)      *)
(*   unans   set of requests  broker: frames received and not yet answered *)
(*   inbound FIFO of <<k, id>> reply bytes on the connection, unread        *)
(*   replyq  FIFO of <<k, id>> spawned _ProcessReply greenlets              *)
(* One action per code segment between yields: Request                      *)
(* (AsyncProcessRequest: pool.get, map entry, header, queue), SendStep      *)
(* (_SendLoop iteration incl. _HandleTimeout), Timeout (the timer queue    *)
(* runs ClientTimeoutSink._TimeoutHelper: the event is set, the             *)
(* notification deferred, the stack drained with TimeoutError), TimeoutProc *)
(* (timeout_proc -> _OnTimeout), BrokerAnswer (any unanswered request, any *)
(* order, at any time: also long after the client gave up), RecvStep        *)
(* (_RecvLoop iteration), ProcessReply (_ProcessTaggedReply).               *)
(*                                                                         *)
(* FixSent = TRUE is the code (5f62552): _ProcessTaggedReply drops a reply  *)
(* frame naming the tag of a request that has not been written yet; FALSE   *)
(* is the code before that repair.                                          *)
(* ReleaseOnTimeout = FALSE is the code (`_OnTimeout: pass`: the id stays   *)
(* reserved until the broker answers); TRUE is the design in which a       *)
(* client-side timeout returns the id to the pool: the next request takes  *)
(* it while the old one is still outstanding at the broker and receives    *)
(* the old request's reply (counterexample to NoViolation).                *)
(***************************************************************************)
EXTENDS KafkaCorrAbs

CONSTANTS Reqs, MaxTag, ReleaseOnTimeout, FixSent

VARIABLES pool, tagmap, tagkey, hdr, sendq, evt, sub, tproc, stack, unans, inbound, replyq, viol, sent

vars == <<pool, tagmap, tagkey, hdr, sendq, evt, sub, tproc, stack, unans, inbound, replyq, viol, sent, lreq, lrep>>

Init ==
  /\ pool = [next |-> 1, free |-> {}]
  /\ tagmap = <<>>
  /\ tagkey = [r \in Reqs |-> 0]
  /\ hdr = [r \in Reqs |-> 0]
  /\ sendq = <<>> /\ inbound = <<>> /\ replyq = <<>>
  /\ evt = [r \in Reqs |-> FALSE] /\ sub = [r \in Reqs |-> FALSE]
  /\ tproc = {}
  /\ stack = [r \in Reqs |-> "new"]
  /\ unans = {}
  /\ viol = "ok"
  /\ sent = [r \in Reqs |-> FALSE]
  /\ LInit

Note(c) == viol' = IF viol = "ok" THEN c ELSE viol

\* TagPool.get(): a released tag (set.pop(): any of them), else the next new one; raises when exhausted
CanGet == pool.free # {} \/ pool.next # MaxTag - 1

\* _ReleaseTag(tag): pop the map entry; only an outstanding tag goes back to the pool
Release(tag, tm, pl) ==
  [map  |-> [t \in DOMAIN tm \ {tag} |-> tm[t]],
   pool |-> IF tag \in DOMAIN tm THEN [pl EXCEPT !.free = @ \cup {tag}] ELSE pl]

\* ---- the caller ------------------------------------------------------------------------
\* ClientTimeoutSink schedules the deadline and pushes itself, the serializer encodes the body, the
\* transport takes a tag, files the stack under it, packs the header and queues the payload.
Request(r) ==
  /\ stack[r] = "new" /\ CanGet
  /\ \A q \in Reqs : q < r => stack[q] # "new"      \* requests are interchangeable: issue them in order of name
  /\ \E tag \in (IF pool.free # {} THEN pool.free ELSE {pool.next + 1}) :
       /\ pool' = IF pool.free # {} THEN [pool EXCEPT !.free = @ \ {tag}] ELSE [pool EXCEPT !.next = @ + 1]
       /\ tagmap' = (tag :> r) @@ tagmap
       /\ tagkey' = [tagkey EXCEPT ![r] = tag]
       /\ hdr' = [hdr EXCEPT ![r] = tag]
       /\ Note(LReqCheck(r)) /\ LReqUpd(r, LProduce, tag)
  /\ sendq' = Append(sendq, r)
  /\ stack' = [stack EXCEPT ![r] = "wait"]
  /\ UNCHANGED <<evt, sub, tproc, unans, inbound, replyq, sent>>

\* the deadline: the event is set (subscribers are notified later, by a spawned greenlet), the timeout
\* message drains the stack: the caller gets TimeoutError
Timeout(r) ==
  /\ stack[r] = "wait"
  /\ evt' = [evt EXCEPT ![r] = TRUE]
  /\ tproc' = IF sub[r] THEN tproc \cup {r} ELSE tproc
  /\ stack' = [stack EXCEPT ![r] = "done"]
  /\ Note(LDoneCheck(r, "TimeoutError", {}, 0)) /\ LDoneUpd(r, "TimeoutError", {})
  /\ UNCHANGED <<pool, tagmap, tagkey, hdr, sendq, sub, unans, inbound, replyq, sent>>

\* timeout_proc: pop Tag.KEY; if it was still there: _OnTimeout(tag)
TimeoutProc(r) ==
  /\ r \in tproc
  /\ tproc' = tproc \ {r}
  /\ tagkey' = [tagkey EXCEPT ![r] = 0]
  /\ IF tagkey[r] # 0 /\ ReleaseOnTimeout
     THEN LET rel == Release(tagkey[r], tagmap, pool) IN tagmap' = rel.map /\ pool' = rel.pool
     ELSE UNCHANGED <<tagmap, pool>>
  /\ UNCHANGED <<hdr, sendq, evt, sub, stack, unans, inbound, replyq, viol, sent, lreq, lrep>>

\* ---- the send loop ---------------------------------------------------------------------
SendStep ==
  /\ sendq # <<>>
  /\ LET r == Head(sendq) IN
     /\ sendq' = Tail(sendq)
     /\ IF evt[r]
        THEN \* _HandleTimeout: timed out in the queue: pop Tag.KEY, release the tag, do not send
             LET rel == Release(tagkey[r], tagmap, pool) IN
             /\ tagkey' = [tagkey EXCEPT ![r] = 0]
             /\ IF tagkey[r] # 0 THEN tagmap' = rel.map /\ pool' = rel.pool ELSE UNCHANGED <<tagmap, pool>>
             /\ UNCHANGED <<sub, unans, sent>>
        ELSE \* subscribe timeout_proc, write the frame: the broker has it; mark the request as written
             /\ sub' = [sub EXCEPT ![r] = TRUE]
             /\ unans' = unans \cup {r}
             /\ sent' = [sent EXCEPT ![r] = TRUE]
             /\ UNCHANGED <<pool, tagmap, tagkey>>
  /\ UNCHANGED <<hdr, evt, tproc, stack, inbound, replyq, viol, lreq, lrep>>

\* ---- the broker ------------------------------------------------------------------------
\* answers each request once, echoing the id of its header; the reply's content is its index
BrokerAnswer(w) ==
  /\ w \in unans
  /\ unans' = unans \ {w}
  /\ inbound' = Append(inbound, <<Len(lrep) + 1, hdr[w]>>)
  /\ Note(LReplyCheck(w, hdr[w])) /\ LReplyUpd(w, LProduce, hdr[w], Len(lrep) + 1, 0)
  /\ UNCHANGED <<pool, tagmap, tagkey, hdr, sendq, evt, sub, tproc, stack, replyq, sent>>

\* ---- the receive loop -------------------------------------------------------------------
RecvStep ==
  /\ inbound # <<>>
  /\ replyq' = Append(replyq, Head(inbound)) /\ inbound' = Tail(inbound)
  /\ UNCHANGED <<pool, tagmap, tagkey, hdr, sendq, evt, sub, tproc, stack, unans, viol, sent, lreq, lrep>>

\* _ProcessReply -> _ProcessTaggedReply(tag): whoever is filed under the tag gets the stream
ProcessReply ==
  /\ replyq # <<>>
  /\ LET k == Head(replyq)[1] tag == Head(replyq)[2] rel == Release(tag, tagmap, pool) IN
     /\ replyq' = Tail(replyq)
     /\ IF FixSent /\ tag \in DOMAIN tagmap /\ ~sent[tagmap[tag]]
        THEN \* the request holding the tag is still in the send queue: a stray frame, dropped, the tag stays
             UNCHANGED <<tagmap, pool, tagkey, stack, viol, lreq, lrep>>
        ELSE /\ tagmap' = rel.map /\ pool' = rel.pool
             /\ IF tag \in DOMAIN tagmap
                THEN LET r == tagmap[tag] IN
                     /\ tagkey' = [tagkey EXCEPT ![r] = 0]
                     /\ IF stack[r] = "wait"
                        THEN /\ stack' = [stack EXCEPT ![r] = "done"]       \* decoded and handed to the caller
                             /\ Note(LDoneCheck(r, "none", {k}, 0)) /\ LDoneUpd(r, "none", {k})
                        ELSE UNCHANGED <<stack, viol, lreq, lrep>>           \* a drained stack ignores it
                ELSE UNCHANGED <<tagkey, stack, viol, lreq, lrep>>
  /\ UNCHANGED <<hdr, sendq, evt, sub, tproc, unans, inbound, sent>>

Next ==
  \/ \E r \in Reqs : Request(r) \/ Timeout(r) \/ TimeoutProc(r) \/ BrokerAnswer(r)
  \/ SendStep \/ RecvStep \/ ProcessReply

Spec == Init /\ [][Next]_vars

\* ---- invariants --------------------------------------------------------------------------
NoViolation == viol = "ok"
\* at quiescence nothing the client read is left undelivered (the LEnd clause)
Quiescent == sendq = <<>> /\ inbound = <<>> /\ replyq = <<>> /\ tproc = {}
EndClause == Quiescent => LEndCheck(0) = "ok"
PoolSane == /\ pool.free \cap DOMAIN tagmap = {}
            /\ \A t \in pool.free \cup DOMAIN tagmap : t >= 2 /\ t <= pool.next
\* the code's rule ("client initiated timeouts do NOT return tags to the pool"), structurally: the
\* requests outstanding at the broker carry pairwise distinct ids
UniqueAtBroker == \A w1, w2 \in unans : w1 # w2 => hdr[w1] # hdr[w2]
=============================================================================
