SPECIFICATION Spec
CONSTANTS
  MaxPayload = 4
  Variants = {"varz", "raw"}
INVARIANT NoViolation
INVARIANT Delivered
INVARIANT Emit
CHECK_DEADLOCK FALSE
