---------------------------- MODULE KafkaWireCheck ----------------------------
(***************************************************************************)
(* C15 -- bounded exhaustive self-consistency of the KafkaWire reference.   *)
(*                                                                         *)
(* A tiny state machine enumerates a bounded domain, one message per state *)
(* (grown by one payload / topic / broker per step so that the search is   *)
(* spread over TLC's workers):                                              *)
(*   req    produce requests: topics, partitions at the int32 boundaries,  *)
(*          acks, payload lists (empty list, empty payloads, arbitrary     *)
(*          bytes), correlation ids at the byte boundaries, client ids     *)
(*   presp  produce responses: <= 2 topics x <= 2 partitions, error codes  *)
(*          incl. -1, 64-bit offsets                                       *)
(*   mresp  metadata responses: <= 2 brokers, <= 1 topic x <= 2 partitions,*)
(*          leader -1, replica / isr arrays                                *)
(* Invariants:                                                             *)
(*   RoundTrip     Decode(Encode(m)) = m, sizes and CRC verify             *)
(*   ChecksAccept  the property-level Check operators accept the reference *)
(*                 encoding of every message of the domain                 *)
(*   ChecksRejectCorruption  and reject single-byte corruptions of it      *)
(*                 (except in fields that are not inputs: timeout, offset) *)
(*   ImplAgrees    the code-shaped writers (KafkaWire, Impl...) produce the *)
(*                 reference bytes: holds for Variant = "fixed"; for       *)
(*                 "asis" the header cannot be packed (counterexample).    *)
(***************************************************************************)
EXTENDS KafkaWire

CONSTANTS Topics, Partitions, AcksSet, PayloadBytes, MaxPayloads, Corrs, Variant

Scales == <<115, 99, 97, 108, 101, 115>>          \* "scales"
Cids == {<<>>, Scales}
Max4 == <<65535, 65535, 65535, 65535>>
MaxInt == 2147483647

TopicsQ == {<<>>, <<65>>, <<255>>}
TopicsT == TopicsQ \cup {<<65, 255>>, <<255, 0>>}
PartsQ  == {0, 256, 65536, MaxInt}
PartsT  == {0, 1, 255, 256, 65535, 65536, MaxInt}
AcksQ   == {-1, 0, 1}
CorrsQ  == {0, 65536, 16777215}
CorrsT  == {0, 255, 256, 65536, 16777215}
PayloadSet == BoundedSeq(PayloadBytes, 2)

PPartSet  == [partition : {0, MaxInt}, error : {-1, 3}, off : {Z4, Max4}]
PTopicSet == [topic : {<<>>, <<65>>}, parts : BoundedSeq(PPartSet, 2)]

BrokerSet == [id : {0, MaxInt}, host : {<<>>, <<104>>}, port : {9092}]
ReplIsr   == {<< <<>>, <<>> >>, << <<0, 1>>, <<1>> >>, << <<MaxInt>>, <<>> >>}
MPartSet  == {[error |-> 0, id |-> i, leader |-> l, replicas |-> ri[1], isr |-> ri[2]] :
                 i \in {0, 1}, l \in {-1, 0}, ri \in ReplIsr}
MTopicSet == [error : {0, -1}, name : {<<>>, <<116>>}, parts : BoundedSeq(MPartSet, 2)]

VARIABLE m
vars == <<m, accepted>>

Init ==
  /\ accepted = 0
  /\ \/ m \in [kind : {"req"}, topic : Topics, partition : Partitions, acks : AcksSet, payloads : {<<>>},
               corr : Corrs, cid : Cids]
     \/ m \in [kind : {"presp"}, corr : {0, 16777215}, r : {<<>>} \cup {<<t>> : t \in PTopicSet}]
     \/ m \in [kind : {"mresp"}, corr : {7}, brokers : BoundedSeq(BrokerSet, 2), topics : {<<>>}]

Next ==
  /\ \/ /\ m.kind = "req" /\ Len(m.payloads) < MaxPayloads
        /\ \E p \in PayloadSet : m' = [m EXCEPT !.payloads = Append(@, p)]
     \/ /\ m.kind = "presp" /\ Len(m.r) = 1 /\ m.corr = 0
        /\ \E t \in PTopicSet : m' = [m EXCEPT !.r = Append(@, t)]
     \/ /\ m.kind = "mresp" /\ Len(m.topics) = 0
        /\ \E t \in MTopicSet : m' = [m EXCEPT !.topics = <<t>>]
  /\ UNCHANGED accepted

Spec == Init /\ [][Next]_vars

\* ---------------------------------------------------------------- helpers
RefMsgs(payloads) == [i \in DOMAIN payloads |-> [off |-> Z4, nokey |-> TRUE, key |-> <<>>, value |-> payloads[i]]]
RefFrame == RequestFrame(ProduceKey, m.corr, m.cid, ProduceBody(m.acks, 1000, m.topic, m.partition, RefMsgs(m.payloads)))
ReqEvent(frame) == [topic |-> m.topic, partition |-> m.partition, acks |-> m.acks, payloads |-> m.payloads,
                    corr |-> m.corr, cid |-> m.cid, frame |-> frame, braised |-> "none", hraised |-> "none"]

\* ---------------------------------------------------------------- invariants
ReqRoundTrip ==
  LET f == RefFrame
      h == DecRequest(f)
      b == DecProduce(SubSeq(f, h.next, Len(f)))
  IN /\ h.ok /\ h.val = [size |-> Len(f) - 4, api |-> ProduceKey, version |-> 0, corr |-> m.corr, cid |-> m.cid]
     /\ b.ok /\ b.acks = m.acks /\ b.timeout = 1000 /\ b.ntopics = 1 /\ b.topic = m.topic
     /\ b.nparts = 1 /\ b.partition = m.partition
     /\ Len(b.msgs) = Len(m.payloads)
     /\ \A i \in DOMAIN m.payloads :
          /\ b.msgs[i].value = m.payloads[i] /\ b.msgs[i].nokey /\ b.msgs[i].off = Z4
          /\ b.msgs[i].crcOk /\ b.msgs[i].sizeOk /\ b.msgs[i].magic = 0 /\ b.msgs[i].attrs = 0

RoundTrip ==
  CASE m.kind = "req"   -> ReqRoundTrip
    [] m.kind = "presp" -> LET d == DecProduceResponse(ProduceResponseBytes(m.corr, m.r))
                           IN d.ok /\ d.val = [corr |-> m.corr, topics |-> m.r]
    [] m.kind = "mresp" -> LET d == DecMetadataResponse(MetadataResponseBytes(m.corr, m.brokers, m.topics))
                           IN d.ok /\ d.val = [corr |-> m.corr, brokers |-> m.brokers, topics |-> m.topics]

Distinct(s, Key(_)) == \A i, j \in DOMAIN s : i # j => Key(s[i]) # Key(s[j])
PartId(p) == p.id
BrokerId(b) == b.id

ChecksAccept ==
  CASE m.kind = "req"   -> ReqCheck(ReqEvent(RefFrame)) = "ok"
    [] m.kind = "presp" -> PRespCheck([bytes |-> ProduceResponseBytes(m.corr, m.r), raised |-> "none",
                                       out |-> FlatProduce(m.r)]) = "ok"
    [] m.kind = "mresp" ->
         (Distinct(m.brokers, BrokerId) /\ \A i \in DOMAIN m.topics : Distinct(m.topics[i].parts, PartId)) =>
           MRespCheck([bytes |-> MetadataResponseBytes(m.corr, m.brokers, m.topics), raised |-> "none",
                       brokers |-> m.brokers,
                       topics |-> [i \in DOMAIN m.topics |->
                          [name |-> m.topics[i].name,
                           parts |-> [j \in DOMAIN m.topics[i].parts |->
                              LET p == m.topics[i].parts[j]
                              IN [id |-> p.id, leader |-> p.leader, hasRepl |-> TRUE,
                                  replicas |-> p.replicas, isr |-> p.isr]]]]]) = "ok"

\* positions of fields that are not inputs (request timeout; per-message offsets)
FreePos(f) ==
  LET h == DecRequest(f)
      bodyAt == h.next
      msAt == bodyAt + 2 + 4 + 4 + 2 + Len(m.topic) + 4 + 4 + 4
      entryAt(i) == msAt + FoldLeft(LAMBDA a, j : a + 26 + Len(m.payloads[j]), 0, Iota(i - 1))
  IN (bodyAt + 2 .. bodyAt + 5) \cup UNION {entryAt(i) .. entryAt(i) + 7 : i \in DOMAIN m.payloads}

ChecksRejectCorruption ==
  (m.kind = "req" /\ m.partition = 0 /\ m.acks = 1 /\ m.corr = 0) =>
    LET f == RefFrame
    IN \A p \in DOMAIN f \ FreePos(f) : ReqCheck(ReqEvent([f EXCEPT ![p] = (f[p] + 1) % 256])) # "ok"

ImplAgrees ==
  m.kind = "req" =>
    LET body == ImplProduceBody(m.acks, m.topic, m.partition, m.payloads)
        hdr  == ImplBuildHeader(m.corr, ProduceKey, Len(body), m.cid, Variant)
    IN hdr.raised = "none" /\ hdr.bytes \o body = RefFrame

ASSUME CrcSelfTest
=============================================================================
