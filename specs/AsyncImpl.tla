----------------------------- MODULE AsyncImpl -----------------------------
(***************************************************************************)
(* Code-shaped model of scales/asynchronous.py (C17): WhenAll, WhenAny,    *)
(* Unwrap/_UnwrapHelper, ContinueWith, Map, on top of gevent's AsyncResult *)
(* as it is in gevent 26.8:                                                *)
(*   cell = [val, exc]; set(v) writes val only, set_exception(e) writes    *)
(*   exc only (re-settable, neither clears the other);                     *)
(*   ready() = exc set or val set; successful() = val set;                 *)
(*   rawlink(cb) appends to the links and, if the result is ready and no   *)
(*   notifier is pending, queues ONE notifier callback on the loop; set /  *)
(*   set_exception do the same check; the notifier pops and calls every    *)
(*   link in order (one loop quantum), then clears the notifier.           *)
(* One action per loop quantum / environment call:                         *)
(*   SetInput(i, k)  the environment completes input i (between any two    *)
(*                   quanta, also while notifiers are queued)              *)
(*   Call            the combinator call itself (synchronous part)         *)
(*   RunTask         head of the FIFO run queue: a notifier ("N", a) or    *)
(*                   the greenlet spawned by ContinueWith(on_hub=False)    *)
(* Results: 0 = the result the combinator creates (ret / unwrapped_ar /    *)
(* cw_ar), 1..N = inputs (Unwrap: chain levels; Map: 1 = source, 2 = the   *)
(* result the mapped function returns when fnk = "nest", which may itself  *)
(* complete with result 3: a chain that Map must flatten), N+1 = Map's     *)
(* intermediate cw_ar.  `retid` is the result handed to the caller         *)
(* (WhenAny may hand back one of its inputs).                              *)
(* Fixed = FALSE models WhenAny as in the unchanged tree, Fixed = TRUE as  *)
(* repaired by fixes/C17-whenany.diff.                                     *)
(* ContinueWith continuations (fnk): "ret" / "raise" a plain value, or hand *)
(* back a result OBJECT: "retar" = result 2 (a follow-up operation the     *)
(* environment completes at any time or never), "retself" = the source it  *)
(* was given.  The code does cw_ar.set(val) with whatever fn returned, so  *)
(* the cell of cw_ar then holds ArV(2) / ArV(1): the object, not its       *)
(* content.                                                                *)
(* Follow = TRUE is NOT the code: it is the tempting design in which       *)
(* _SafeLinkHelper "follows" a returned result (val.rawlink(target), the   *)
(* gevent AsyncResult being its own link callback that copies value or     *)
(* exception) and ContinueWith delegates to it; AsyncImpl_follow.cfg keeps *)
(* it as a design-level counterexample to C17.continueWith.  Map and       *)
(* Unwrap are indifferent to it (one notifier quantum later).              *)
(* The property-level machine AsyncAbs runs in lock-step on ghost          *)
(* variables; every quiescent state after the call is judged by ObsCheck.  *)
(***************************************************************************)
EXTENDS AsyncAbs

CONSTANTS CombSet,   \* combinators explored (chosen at Init)
          N,         \* number of inputs / chain levels (ContinueWith uses 1-2, Map 2-3 of them)
          Fixed,     \* WhenAny variant: FALSE = unchanged tree, TRUE = repaired
          Follow     \* FALSE = the code: set(fn()); TRUE = "follow a returned result" design

VARIABLES cell, links, notif, runq, total, results, retid, phase, onhub, fnk, viol
ivars == <<cell, links, notif, runq, total, results, retid, phase, onhub, fnk>>
vars == <<ivars, avars, viol>>

ARs == 0..(N + 1)
UNSET == [vk |-> "unset", val |-> <<>>]
IntV(v) == [vk |-> "int", val |-> <<v>>]
ArV(a) == [vk |-> "ar", val |-> <<a>>]
ListV(s) == [vk |-> "list", val |-> s]
NoRun == [ready |-> FALSE, arg |-> 0, out |-> "none", v |-> 0]

\* mutable implementation state as a record, so that code segments compose
St == [cell |-> cell, links |-> links, notif |-> notif, runq |-> runq,
       total |-> total, results |-> results, run |-> NoRun]

Ready(s, a) == s.cell[a].exc # -1 \/ s.cell[a].val.vk # "unset"
Succ(s, a) == s.cell[a].val.vk # "unset"
Exc(s, a) == s.cell[a].exc

\* --- gevent AsyncResult ------------------------------------------------------
CheckNotify(s, a) ==
  IF Ready(s, a) /\ s.links[a] # <<>> /\ ~s.notif[a]
  THEN [s EXCEPT !.notif[a] = TRUE, !.runq = Append(@, [k |-> "N", a |-> a])]
  ELSE s
SetVal(s, a, v) == CheckNotify([s EXCEPT !.cell[a].val = v], a)
SetExc(s, a, e) == CheckNotify([s EXCEPT !.cell[a].exc = e], a)
RawLink(s, a, cb) == CheckNotify([s EXCEPT !.links[a] = Append(@, cb)], a)

\* --- closures ------------------------------------------------------------------
\* WhenAll.complete(_n = i, _ar = input i)
AllC(s, i) ==
  IF Exc(s, i) # -1 THEN SetExc(s, 0, Exc(s, i))
  ELSE IF ~Ready(s, 0)
  THEN LET s1 == [s EXCEPT !.total = @ - 1, !.results[i] = s.cell[i].val.val[1]]
       IN IF s1.total = 0 THEN SetVal(s1, 0, ListV(s1.results)) ELSE s1
  ELSE s

\* WhenAny.complete(_ar = input i)
AnyC(s, i) ==
  LET s1 == [s EXCEPT !.total = @ - 1] IN
  IF s1.total = 0 /\ Exc(s1, i) # -1 /\ (Fixed => ~Ready(s1, 0))
  THEN SetExc(s1, 0, Exc(s1, i))
  ELSE IF ~Ready(s1, 0) /\ Succ(s1, i) THEN SetVal(s1, 0, s1.cell[i].val)
  ELSE s1

\* AsyncResult._UnwrapHelper(self = a, target = tgt)
RECURSIVE UnwrapHelper(_, _, _)
UnwrapHelper(s, a, tgt) ==
  IF Ready(s, a)
  THEN IF Exc(s, a) # -1 THEN SetExc(s, tgt, Exc(s, a))
       ELSE IF s.cell[a].val.vk = "ar" THEN UnwrapHelper(s, s.cell[a].val.val[1], tgt)
       ELSE SetVal(s, tgt, s.cell[a].val)
  ELSE RawLink(s, a, [f |-> "unwrap", n |-> tgt])

\* gevent AsyncResult.__call__(source = a) used as a link: copy the outcome into c (Follow only)
CopyC(s, a, c) ==
  IF Succ(s, a) THEN SetVal(s, c, s.cell[a].val) ELSE SetExc(s, c, Exc(s, a))

\* what run() / _SafeLinkHelper does with the value fn returned
Deliver(s, c, v) ==
  IF Follow /\ v.vk = "ar" THEN RawLink(s, v.val[1], [f |-> "copy", n |-> c])
  ELSE SetVal(s, c, v)

\* ContinueWith's run(): the continuation fn(_ar = source 1), result into c.
\* ContinueWith runs: the harness continuation returns 100 + value / 200 + exception id,
\* or raises 77.  Map: mapper returns self on failure, else fn(value).
RunCont(s, c) ==
  IF acomb = "ContinueWith"
  THEN IF fnk = "raise"
       THEN SetExc([s EXCEPT !.run = [ready |-> Ready(s, 1), arg |-> 0, out |-> "raise", v |-> 77]], c, 77)
       ELSE IF fnk \in {"retar", "retself"}
       THEN LET a == IF fnk = "retar" THEN 2 ELSE 1
            IN Deliver([s EXCEPT !.run = [ready |-> Ready(s, 1), arg |-> 0, out |-> "ar", v |-> a]], c, ArV(a))
       ELSE LET w == IF Exc(s, 1) # -1 THEN 200 + Exc(s, 1)
                     ELSE IF s.cell[1].val.vk = "int" THEN 100 + s.cell[1].val.val[1] ELSE 99
            IN SetVal([s EXCEPT !.run = [ready |-> Ready(s, 1), arg |-> 0, out |-> "ret", v |-> w]], c, IntV(w))
  ELSE \* Map.mapper
       IF Exc(s, 1) # -1 THEN Deliver(s, c, ArV(1))
       ELSE LET arg == IF s.cell[1].val.vk = "int" THEN s.cell[1].val.val[1] ELSE -2 IN
            CASE fnk = "raise" -> SetExc([s EXCEPT !.run = [ready |-> TRUE, arg |-> arg, out |-> "raise", v |-> 77]], c, 77)
              [] fnk = "nest"  -> Deliver([s EXCEPT !.run = [ready |-> TRUE, arg |-> arg, out |-> "nest", v |-> 2]], c, ArV(2))
              [] OTHER         -> SetVal([s EXCEPT !.run = [ready |-> TRUE, arg |-> arg, out |-> "ret", v |-> 100 + arg]],
                                         c, IntV(100 + arg))

\* continue_with_callback(_ar): run inline in the hub, or spawn a greenlet
CwCallback(s, c) ==
  IF acomb = "Map" \/ onhub THEN RunCont(s, c)
  ELSE [s EXCEPT !.runq = Append(@, [k |-> "G", a |-> c])]

CallCb(s, cb, a) ==
  CASE cb.f = "all"    -> AllC(s, cb.n)
    [] cb.f = "any"    -> AnyC(s, a)
    [] cb.f = "unwrap" -> UnwrapHelper(s, a, cb.n)
    [] cb.f = "cw"     -> CwCallback(s, cb.n)
    [] cb.f = "copy"   -> CopyC(s, a, cb.n)

RECURSIVE CallAll(_, _, _)
CallAll(s, ls, a) == IF ls = <<>> THEN s ELSE CallAll(CallCb(s, Head(ls), a), Tail(ls), a)

\* the notifier callback of result a: _notify_links
Notify(s, a) ==
  LET ls == s.links[a]
      s1 == CallAll([s EXCEPT !.links[a] = <<>>], ls, a)
  IN CheckNotify([s1 EXCEPT !.notif[a] = FALSE], a)

RECURSIVE LinkInputs(_, _, _)
LinkInputs(s, i, f) ==
  IF i > N THEN s ELSE LinkInputs(RawLink(s, i, [f |-> f, n |-> i]), i + 1, f)

Install(s) ==
  /\ cell' = s.cell /\ links' = s.links /\ notif' = s.notif /\ runq' = s.runq
  /\ total' = s.total /\ results' = s.results

Note(chk) == viol' = IF viol = "ok" THEN chk ELSE viol

\* ghost: a continuation / mapped-function run produced by this step
Ghost(s, chk) ==
  IF s.run.out = "none" THEN Note(chk) /\ UNCHANGED avars
  ELSE /\ Note(IF chk # "ok" THEN chk ELSE RunCheck(s.run))
       /\ RunUpd(s.run)

Init ==
  /\ cell = [a \in ARs |-> [val |-> UNSET, exc |-> -1]]
  /\ links = [a \in ARs |-> <<>>]
  /\ notif = [a \in ARs |-> FALSE]
  /\ runq = <<>>
  /\ total = 0
  /\ results = [i \in 1..N |-> -1]
  /\ retid = 0
  /\ phase = "pre"
  /\ \E c \in CombSet : AInit(c, N)
  /\ onhub \in (IF acomb = "ContinueWith" THEN BOOLEAN ELSE {TRUE})
  /\ fnk \in (CASE acomb = "ContinueWith" -> {"ret", "raise", "retar", "retself"}
               [] acomb = "Map" -> {"ret", "raise", "nest"}
               [] OTHER -> {"ret"})
  /\ viol = "ok"

Kinds(i) ==
  CASE acomb = "Unwrap" -> {"ok", "fail"} \cup (IF i < N THEN {"nest"} ELSE {})
    [] acomb = "Map"    -> IF i = 1 \/ (i \in {2, 3} /\ fnk = "nest")
                           THEN {"ok", "fail"} \cup (IF i = 2 /\ N >= 3 THEN {"nest"} ELSE {})
                           ELSE {}
    [] acomb = "ContinueWith" -> IF i = 1 \/ (i = 2 /\ fnk = "retar") THEN {"ok", "fail"} ELSE {}
    [] OTHER           -> {"ok", "fail"}

SetInput(i, k) ==
  /\ i \in 1..N /\ ~Ready(St, i) /\ k \in Kinds(i)
  /\ LET v == CASE k = "ok" -> 10 + i [] k = "fail" -> 20 + i [] k = "nest" -> i + 1
         s == CASE k = "ok"   -> SetVal(St, i, IntV(v))
                [] k = "fail" -> SetExc(St, i, v)
                [] k = "nest" -> SetVal(St, i, ArV(v))
     IN /\ Install(s)
        /\ Note(SetCheck(i, k, v))
        /\ SetUpd(i, k, v)
  /\ UNCHANGED <<retid, phase, onhub, fnk>>

Call ==
  /\ phase = "pre"
  /\ phase' = "post"
  /\ LET readys == {i \in 1..N : Ready(St, i) /\ (Fixed => Succ(St, i))}
         short == acomb = "WhenAny" /\ readys # {}
         s == CASE acomb = "WhenAll" -> LinkInputs([St EXCEPT !.total = N], 1, "all")
                [] acomb = "WhenAny" -> IF short THEN St ELSE LinkInputs([St EXCEPT !.total = N], 1, "any")
                [] acomb = "Unwrap"  -> UnwrapHelper(St, 1, 0)
                [] acomb = "ContinueWith" -> RawLink(St, 1, [f |-> "cw", n |-> 0])
                [] acomb = "Map"     -> UnwrapHelper(RawLink(St, 1, [f |-> "cw", n |-> N + 1]), N + 1, 0)
     IN /\ Install(s)
        /\ retid' = IF short THEN CHOOSE i \in readys : \A j \in readys : i <= j ELSE 0
  /\ Note(NewCheck)
  /\ NewUpd
  /\ UNCHANGED <<onhub, fnk>>

RunTask ==
  /\ runq # <<>>
  /\ LET task == Head(runq)
         s0 == [St EXCEPT !.runq = Tail(runq)]
         s == IF task.k = "N" THEN Notify(s0, task.a) ELSE RunCont(s0, task.a)
     IN Install(s) /\ Ghost(s, "ok")
  /\ UNCHANGED <<retid, phase, onhub, fnk>>

Next == \/ RunTask \/ Call
        \/ \E i \in 1..N, k \in {"ok", "fail", "nest"} : SetInput(i, k)

Spec == Init /\ [][Next]_vars

\* ------------------------------------------------------------------ properties
\* what the caller observes of the returned result
Proj ==
  LET c == cell[retid] IN
  [ready |-> c.exc # -1 \/ c.val.vk # "unset",
   ok    |-> c.val.vk # "unset",
   exn   |-> c.exc,
   vk    |-> IF c.val.vk = "unset" THEN "none" ELSE c.val.vk,
   val   |-> c.val.val]

Quiescent == phase = "post" /\ runq = <<>>
NoViolation == viol = "ok" /\ (Quiescent => ObsCheck(Proj) = "ok")

Structural ==
  /\ \A a \in ARs : notif[a] = (\E j \in DOMAIN runq : runq[j] = [k |-> "N", a |-> a])
  /\ \A a \in ARs : (links[a] # <<>> /\ Ready(St, a)) => notif[a]
  /\ total >= 0
  /\ Len(aruns) <= 1
=============================================================================
