----------------------------- MODULE KafkaWire -----------------------------
(***************************************************************************)
(* C15 -- Kafka produce requests and responses are well-formed             *)
(* (reference-function form).                                               *)
(*                                                                         *)
(* Reference encoder and independently written (cursor based, total)       *)
(* decoder for the Kafka v0 wire format, from the protocol guide:          *)
(*   Request    = Size:int32 ApiKey:int16 ApiVersion:int16                 *)
(*                CorrelationId:int32 ClientId:string  RequestMessage      *)
(*   string     = int16 length, bytes          bytes = int32 length, bytes *)
(*   Produce    = RequiredAcks:int16 Timeout:int32                          *)
(*                [TopicName:string [Partition:int32 MessageSetSize:int32  *)
(*                                   MessageSet]]                          *)
(*   MessageSet = (Offset:int64 MessageSize:int32 Message)*   (no count)   *)
(*   Message    = Crc:int32 Magic:int8 Attributes:int8 Key:bytes Value:bytes*)
(*                Crc = CRC-32 of everything after the Crc field           *)
(*   ProduceResponse  = CorrelationId [TopicName [Partition ErrorCode:int16*)
(*                      Offset:int64]]                                     *)
(*   MetadataResponse = CorrelationId [Broker: NodeId Host:string Port]    *)
(*                      [Topic: ErrorCode:int16 Name:string                *)
(*                        [Partition: ErrorCode:int16 Id Leader            *)
(*                                    Replicas:[int32] Isr:[int32]]]       *)
(* Arrays are an int32 count followed by the elements.                     *)
(* 64-bit offsets are four 16-bit limbs; a CRC is <<hi, lo>> (WireBytes).  *)
(*                                                                         *)
(* The Check operators judge one recorded pair produced by the real code:  *)
(* (input, request frame) for requests; (broker bytes, decoded result)     *)
(* for responses, where the broker bytes come from the harness's own       *)
(* encoder and are decoded HERE by the spec's decoder.                     *)
(***************************************************************************)
EXTENDS WireBytes, FiniteSets, TLC

ProduceKey  == 0
MetadataKey == 3
Z4 == <<0, 0, 0, 0>>

\* ------------------------------------------------------------ reference encoder
KStr(b)   == I16(Len(b)) \o b
KBytes(b) == I32(Len(b)) \o b
KNull     == I32(-1)
KArr(elems) == I32(Len(elems)) \o Concat(elems)

RequestHeader(api, corr, cid) == I16(api) \o I16(0) \o I32(corr) \o KStr(cid)
RequestFrame(api, corr, cid, body) ==
  LET msg == RequestHeader(api, corr, cid) \o body IN I32(Len(msg)) \o msg

\* key = <<>> with nokey = TRUE is the null key (-1)
MessageBytes(nokey, key, value) ==
  LET rest == I8(0) \o I8(0) \o (IF nokey THEN KNull ELSE KBytes(key)) \o KBytes(value)
  IN CrcBytes(Crc32(rest)) \o rest
SetEntry(off, nokey, key, value) ==
  LET mb == MessageBytes(nokey, key, value) IN L64(off) \o I32(Len(mb)) \o mb
\* msgs: sequence of [off, nokey, key, value]
MessageSet(msgs) == Concat([i \in DOMAIN msgs |-> SetEntry(msgs[i].off, msgs[i].nokey, msgs[i].key, msgs[i].value)])
ProduceBody(acks, timeout, topic, partition, msgs) ==
  LET ms == MessageSet(msgs)
  IN I16(acks) \o I32(timeout) \o I32(1) \o KStr(topic) \o I32(1) \o I32(partition) \o I32(Len(ms)) \o ms

\* responses (used by KafkaWireCheck for the round trip; the harness broker has its own encoder)
\* produce response r: sequence of [topic, parts: sequence of [partition, error, off]]
ProduceResponseBytes(corr, r) ==
  I32(corr) \o KArr([i \in DOMAIN r |->
     KStr(r[i].topic) \o KArr([j \in DOMAIN r[i].parts |->
        I32(r[i].parts[j].partition) \o I16(r[i].parts[j].error) \o L64(r[i].parts[j].off)])])
I32Arr(a) == I32(Len(a)) \o Concat([i \in DOMAIN a |-> I32(a[i])])
\* metadata response: brokers: sequence of [id, host, port];
\*   topics: sequence of [error, name, parts: sequence of [error, id, leader, replicas, isr]]
MetadataResponseBytes(corr, brokers, topics) ==
  I32(corr)
  \o KArr([i \in DOMAIN brokers |-> I32(brokers[i].id) \o KStr(brokers[i].host) \o I32(brokers[i].port)])
  \o KArr([i \in DOMAIN topics |->
       I16(topics[i].error) \o KStr(topics[i].name) \o KArr([j \in DOMAIN topics[i].parts |->
          LET p == topics[i].parts[j]
          IN I16(p.error) \o I32(p.id) \o I32(p.leader) \o I32Arr(p.replicas) \o I32Arr(p.isr)])])

\* ------------------------------------------------------------ independent decoder
\* Every reader returns [ok, val, next]; `next` is the position after the field.
Bad == [ok |-> FALSE, val |-> <<>>, next |-> 0]
Good(v, n) == [ok |-> TRUE, val |-> v, next |-> n]

RdKStr(s, p) ==
  IF ~Has(s, p, 2) THEN Bad
  ELSE LET n == RdI16(s, p) IN IF n < 0 \/ ~Has(s, p + 2, n) THEN Bad ELSE Good(Sub(s, p + 2, n), p + 2 + n)

\* bytes: val = [null, b]
RdKBytes(s, p) ==
  IF ~Has(s, p, 4) THEN Bad
  ELSE LET n == RdI32(s, p)
       IN IF n = -1 THEN Good([null |-> TRUE, b |-> <<>>], p + 4)
          ELSE IF n < 0 \/ n > Len(s) \/ ~Has(s, p + 4, n) THEN Bad
          ELSE Good([null |-> FALSE, b |-> Sub(s, p + 4, n)], p + 4 + n)

RdArr(s, p, Elem(_, _)) ==
  IF ~Has(s, p, 4) THEN Bad
  ELSE LET n == RdI32(s, p)
       IN IF n < 0 \/ n > Len(s) THEN Bad
          ELSE FoldLeft(LAMBDA acc, i :
                          IF ~acc.ok THEN acc
                          ELSE LET x == Elem(s, acc.next)
                               IN IF ~x.ok THEN Bad ELSE Good(Append(acc.val, x.val), x.next),
                        Good(<<>>, p + 4), Iota(n))

RdI32Elem(s, p) == IF ~Has(s, p, 4) THEN Bad ELSE Good(RdI32(s, p), p + 4)

\* --- request
DecRequest(f) ==
  IF ~Has(f, 1, 14) THEN Bad
  ELSE LET cid == RdKStr(f, 13)
       IN IF ~cid.ok THEN Bad
          ELSE Good([size |-> RdI32(f, 1), api |-> RdI16(f, 5), version |-> RdI16(f, 7),
                     corr |-> RdI32(f, 9), cid |-> cid.val], cid.next)

\* one message-set entry at p: val = [off, size, crc, crcOk, magic, attrs, nokey, key, value, sizeOk]
RdSetEntry(s, p) ==
  IF ~Has(s, p, 12) THEN Bad
  ELSE LET size == RdI32(s, p + 8)
       IN IF size < 14 \/ size > Len(s) \/ ~Has(s, p + 12, size) THEN Bad
          ELSE LET q   == p + 12
                   key == RdKBytes(s, q + 6)
               IN IF ~key.ok THEN Bad
                  ELSE LET v == RdKBytes(s, key.next)
                       IN IF ~v.ok \/ v.val.null THEN Bad
                          ELSE Good([off |-> RdL64(s, p), size |-> size,
                                     crc |-> <<RdU16(s, q), RdU16(s, q + 2)>>,
                                     crcOk |-> Crc32(Sub(s, q + 4, size - 4)) = <<RdU16(s, q), RdU16(s, q + 2)>>,
                                     magic |-> RdI8(s, q + 4), attrs |-> RdI8(s, q + 5),
                                     nokey |-> key.val.null, key |-> key.val.b, value |-> v.val.b,
                                     sizeOk |-> v.next = q + size],     \* declared size = bytes of the message
                                    q + size)

\* a message set is a concatenation of entries filling the set exactly (no count on the wire)
DecMessageSet(ms) ==
  FoldLeft(LAMBDA acc, i :
             IF ~acc.ok \/ acc.next > Len(ms) THEN acc
             ELSE LET x == RdSetEntry(ms, acc.next)
                  IN IF ~x.ok THEN Bad ELSE Good(Append(acc.val, x.val), x.next),
           Good(<<>>, 1), Iota(Len(ms) \div 26 + 1))

PBad(stage) == [ok |-> FALSE, stage |-> stage, acks |-> 0, timeout |-> 0, ntopics |-> 0, topic |-> <<>>,
                nparts |-> 0, partition |-> 0, mssize |-> 0, msgs |-> <<>>]
DecProduce(b) ==
  IF ~Has(b, 1, 10) THEN PBad("head")
  ELSE LET t == RdKStr(b, 11)
       IN IF ~t.ok \/ ~Has(b, t.next, 12) THEN PBad("topic")
          ELSE LET mssize == RdI32(b, t.next + 8)
                   start  == t.next + 12
               IN IF mssize # Len(b) - start + 1 THEN PBad("setsize")     \* declared set size = bytes present
                  ELSE LET ms == DecMessageSet(SubSeq(b, start, Len(b)))
                       IN IF ~ms.ok \/ ms.next # mssize + 1 THEN PBad("msgsize")
                          ELSE [ok |-> TRUE, stage |-> "done", acks |-> RdI16(b, 1), timeout |-> RdI32(b, 3),
                                ntopics |-> RdI32(b, 7), topic |-> t.val, nparts |-> RdI32(b, t.next),
                                partition |-> RdI32(b, t.next + 4), mssize |-> mssize, msgs |-> ms.val]

\* --- responses
RdPPart(s, p) == IF ~Has(s, p, 14) THEN Bad
                 ELSE Good([partition |-> RdI32(s, p), error |-> RdI16(s, p + 4), off |-> RdL64(s, p + 6)], p + 14)
RdPTopic(s, p) ==
  LET t == RdKStr(s, p)
  IN IF ~t.ok THEN Bad
     ELSE LET ps == RdArr(s, t.next, RdPPart)
          IN IF ~ps.ok THEN Bad ELSE Good([topic |-> t.val, parts |-> ps.val], ps.next)
DecProduceResponse(s) ==
  IF ~Has(s, 1, 4) THEN Bad
  ELSE LET r == RdArr(s, 5, RdPTopic)
       IN IF ~r.ok \/ r.next # Len(s) + 1 THEN Bad ELSE Good([corr |-> RdI32(s, 1), topics |-> r.val], r.next)

RdBroker(s, p) ==
  IF ~Has(s, p, 4) THEN Bad
  ELSE LET h == RdKStr(s, p + 4)
       IN IF ~h.ok \/ ~Has(s, h.next, 4) THEN Bad
          ELSE Good([id |-> RdI32(s, p), host |-> h.val, port |-> RdI32(s, h.next)], h.next + 4)
RdMPart(s, p) ==
  IF ~Has(s, p, 10) THEN Bad
  ELSE LET r == RdArr(s, p + 10, RdI32Elem)
       IN IF ~r.ok THEN Bad
          ELSE LET i == RdArr(s, r.next, RdI32Elem)
               IN IF ~i.ok THEN Bad
                  ELSE Good([error |-> RdI16(s, p), id |-> RdI32(s, p + 2), leader |-> RdI32(s, p + 6),
                             replicas |-> r.val, isr |-> i.val], i.next)
RdMTopic(s, p) ==
  IF ~Has(s, p, 2) THEN Bad
  ELSE LET n == RdKStr(s, p + 2)
       IN IF ~n.ok THEN Bad
          ELSE LET ps == RdArr(s, n.next, RdMPart)
               IN IF ~ps.ok THEN Bad ELSE Good([error |-> RdI16(s, p), name |-> n.val, parts |-> ps.val], ps.next)
DecMetadataResponse(s) ==
  IF ~Has(s, 1, 4) THEN Bad
  ELSE LET b == RdArr(s, 5, RdBroker)
       IN IF ~b.ok THEN Bad
          ELSE LET t == RdArr(s, b.next, RdMTopic)
               IN IF ~t.ok \/ t.next # Len(s) + 1 THEN Bad
                  ELSE Good([corr |-> RdI32(s, 1), brokers |-> b.val, topics |-> t.val], t.next)

\* ------------------------------------------------------------ property-level checks
\* `*raised` is "none" or the class name of the exception the real code raised.

HeaderCheck(frame, api, corr, cid) ==
  LET h == DecRequest(frame) IN
  \* a size-prefixed request header carrying the API key, version 0, the correlation id and the client id
  IF ~h.ok THEN "C15.header"
  ELSE IF h.val.size # Len(frame) - 4 THEN "C15.header"
  ELSE IF h.val.api # api \/ h.val.version # 0 \/ h.val.corr # corr \/ h.val.cid # cid THEN "C15.header"
  ELSE IF SubSeq(frame, 1, h.next - 1) # I32(Len(frame) - 4) \o RequestHeader(api, corr, cid) THEN "C15.header"
  ELSE "ok"

\* Produce request:
\*   e = [topic, partition (-1 = chosen by the balancer among the topic's partitions, not an input), acks,
\*        payloads, corr, cid, frame, braised (serializer), hraised (header builder)]
ReqCheck(e) ==
  IF ~(IsBytes(e.frame) /\ IsBytes(e.topic) /\ IsBytes(e.cid) /\ \A i \in DOMAIN e.payloads : IsBytes(e.payloads[i]))
    THEN "harness.input"
  ELSE IF e.braised # "none" THEN "C15.raised"      \* an encodable input must be serialized
  ELSE IF e.hraised # "none" THEN "C15.header"      \* ... and its header must be packable
  ELSE IF HeaderCheck(e.frame, ProduceKey, e.corr, e.cid) # "ok" THEN HeaderCheck(e.frame, ProduceKey, e.corr, e.cid)
  ELSE
  LET h == DecRequest(e.frame)
      b == DecProduce(SubSeq(e.frame, h.next, Len(e.frame)))
      n == Len(e.payloads)
  IN
  IF ~b.ok /\ b.stage \in {"head", "topic"} THEN "C15.body"
  ELSE IF ~b.ok /\ b.stage = "setsize" THEN "C15.messageSetSize"   \* declared sizes match the bytes present
  ELSE IF ~b.ok THEN "C15.messageSize"
  ELSE IF b.acks # e.acks THEN "C15.acks"
  ELSE IF b.ntopics # 1 \/ b.topic # e.topic THEN "C15.topic"                \* one topic
  ELSE IF b.nparts # 1 \/ (e.partition # -1 /\ b.partition # e.partition) THEN "C15.partition"  \* one partition
  ELSE IF \E i \in DOMAIN b.msgs : ~b.msgs[i].sizeOk THEN "C15.messageSize"
  ELSE IF \E i \in DOMAIN b.msgs : ~b.msgs[i].crcOk THEN "C15.crc"           \* per-message CRC32 verifies
  ELSE IF Len(b.msgs) # n THEN "C15.messageCount"
  ELSE IF \E i \in 1..n : b.msgs[i].magic # 0 \/ b.msgs[i].attrs # 0 THEN "C15.magic"  \* v0, uncompressed
  ELSE IF \E i \in 1..n : b.msgs[i].value # e.payloads[i] THEN "C15.value"
  \* bytes = Encode(input); timeout, per-message offsets and keys are not inputs: taken as decoded
  ELSE IF e.frame # RequestFrame(ProduceKey, e.corr, e.cid,
                       ProduceBody(e.acks, b.timeout, e.topic, b.partition,
                                   [i \in 1..n |-> [off |-> b.msgs[i].off, nokey |-> b.msgs[i].nokey,
                                                    key |-> b.msgs[i].key, value |-> e.payloads[i]]]))
    THEN "C15.bytes"
  ELSE "ok"

\* A produce request seen by the broker of a complete client (retry mode).  A Put whose connection failed may be
\* re-sent by the router long after the caller gave up, so a frame is attributed to the Put in whose window it
\* arrived (the fields of e) or, failing that, to any earlier Put of the run (e.alts: sequence of
\* [topic, partition, acks, payloads]): it must be a well-formed request for one of them.
ReqRCheck(e) ==
  LET first == ReqCheck(e) IN
  IF first = "ok" \/ first = "harness.input" THEN first
  ELSE IF \E i \in DOMAIN e.alts :
            ReqCheck([e EXCEPT !.topic = e.alts[i].topic, !.partition = e.alts[i].partition,
                               !.acks = e.alts[i].acks, !.payloads = e.alts[i].payloads]) = "ok"
    THEN "ok"
  ELSE first

\* Header of any request (here: the metadata request): e = [api, corr, cid, frame, braised, hraised]
HdrCheck(e) ==
  IF ~(IsBytes(e.frame) /\ IsBytes(e.cid)) THEN "harness.input"
  ELSE IF e.braised # "none" THEN "ok"           \* the body of other requests is outside C15
  ELSE IF e.hraised # "none" THEN "C15.header"
  ELSE HeaderCheck(e.frame, e.api, e.corr, e.cid)

SeqSet(s) == {s[i] : i \in DOMAIN s}

\* Produce response: e = [bytes (broker-encoded), raised, out: sequence of [topic, partition, error, off]]
FlatProduce(topics) ==
  Concat([i \in DOMAIN topics |-> [j \in DOMAIN topics[i].parts |->
     [topic |-> topics[i].topic, partition |-> topics[i].parts[j].partition,
      error |-> topics[i].parts[j].error, off |-> topics[i].parts[j].off]]])

PRespCheck(e) ==
  LET d == DecProduceResponse(e.bytes) IN
  IF ~IsBytes(e.bytes) \/ ~d.ok THEN "harness.brokerBytes"
  ELSE IF e.raised # "none" THEN "C15.produceResponse"
  \* decodes to exactly the topic/partition/error/offset the broker encoded
  ELSE LET want == FlatProduce(d.val.topics)
       IN IF Len(e.out) # Len(want) \/ SeqSet(e.out) # SeqSet(want) THEN "C15.produceResponse" ELSE "ok"

\* Metadata response: e = [bytes, raised, brokers: seq of [id, host, port],
\*                         topics: seq of [name, parts: seq of [id, leader, hasRepl, replicas, isr]]]
MRespCheck(e) ==
  LET d == DecMetadataResponse(e.bytes) IN
  IF ~IsBytes(e.bytes) \/ ~d.ok THEN "harness.brokerBytes"
  ELSE IF e.raised # "none" THEN "C15.metadataResponse"
  ELSE LET wb == d.val.brokers
           wt == d.val.topics
       IN
       \* exactly the broker data ...
       IF Len(e.brokers) # Len(wb) \/ SeqSet(e.brokers) # SeqSet(wb) THEN "C15.metadataBrokers"
       \* ... and the topic / partition / leader data the broker encoded
       ELSE IF Len(e.topics) # Len(wt) \/ {e.topics[i].name : i \in DOMAIN e.topics} # {wt[i].name : i \in DOMAIN wt}
         THEN "C15.metadataTopics"
       ELSE IF \E i \in DOMAIN e.topics : \E j \in DOMAIN wt :
                 /\ e.topics[i].name = wt[j].name
                 /\ \/ Len(e.topics[i].parts) # Len(wt[j].parts)
                    \/ {<<p.id, p.leader>> : p \in SeqSet(e.topics[i].parts)} # {<<p.id, p.leader>> : p \in SeqSet(wt[j].parts)}
                    \/ \E p \in SeqSet(e.topics[i].parts) : \E q \in SeqSet(wt[j].parts) :
                         p.id = q.id /\ p.hasRepl /\ (p.replicas # q.replicas \/ p.isr # q.isr)
         THEN "C15.metadataPartitions"
       ELSE "ok"

\* Correlation-id routing: e = [reqs: seq of [frame], replies: seq of byte strings (broker-encoded produce
\*   responses, in the order they were put on the connection), got: seq (same index as reqs) of
\*   [n (deliveries seen by request i), raised, out (result of the first delivery)]]
RouteCheck(e) ==
  LET nreq == Len(e.reqs)
      hdr(i) == DecRequest(e.reqs[i].frame)
      rep(k) == DecProduceResponse(e.replies[k])
  IN
  IF \E k \in DOMAIN e.replies : ~rep(k).ok THEN "harness.brokerBytes"
  ELSE IF Len(e.got) # nreq THEN "harness.input"
  ELSE IF \E i \in 1..nreq : ~hdr(i).ok THEN "C15.header"
  \* in-flight requests carry distinct correlation ids
  ELSE IF \E i, j \in 1..nreq : i # j /\ hdr(i).val.corr = hdr(j).val.corr THEN "C15.routing"
  ELSE IF \E k, k2 \in DOMAIN e.replies : k # k2 /\ rep(k).val.corr = rep(k2).val.corr THEN "harness.input"
  \* a reply is delivered to the request with the same correlation id (and to no other request)
  ELSE IF \E i \in 1..nreq :
            LET ks == {k \in DOMAIN e.replies : rep(k).val.corr = hdr(i).val.corr}
            IN IF ks = {} THEN e.got[i].n # 0
               ELSE LET want == FlatProduce(rep(CHOOSE k \in ks : TRUE).val.topics)
                    IN \/ e.got[i].n # 1 \/ e.got[i].raised # "none"
                       \/ Len(e.got[i].out) # Len(want) \/ SeqSet(e.got[i].out) # SeqSet(want)
    THEN "C15.routing"
  ELSE "ok"

\* ------------------------------------------------------------ the (trivial) machine
VARIABLE accepted
avars == <<accepted>>
AInit == accepted = 0
AUpd  == accepted' = accepted + 1

\* ------------------------------------------------------------ code-shaped writers
\* scales/kafka/protocol.py _SerializeProduceRequest and scales/kafka/sink.py _BuildHeader, segment by
\* segment, with the code's own size arithmetic (used by KafkaWireCheck: ImplAgrees).
\* _BuildHeader variant "asis": CLIENT_ID is a text string and struct's 's' code needs bytes on
\* Python 3: the call raises struct.error (raised |-> "struct.error"); "fixed": bytes.
ImplMessage(p) ==
  LET header == I8(0) \o I8(0) \o I32(-1) \o I32(Len(p))                 \* MSG_STRUCT '!BBii' (0, 0, -1, len)
      crc    == CrcFinal(CrcUpdate(CrcUpdate(CrcInit, header), p))        \* zlib.crc32(p, zlib.crc32(header))
  IN L64(Z4) \o I32(Len(header) + Len(p) + 4) \o CrcBytes(crc) \o header \o p   \* MSG_HEADER '!qiI'
ImplProduceBody(acks, topic, partition, payloads) ==
  I16(acks) \o I32(1000) \o I32(1)                                        \* PRODUCE_HEADER '!hii'
  \o I16(Len(topic)) \o topic \o I32(1) \o I32(partition)
  \o I32(FoldLeft(LAMBDA a, p : a + 8 + 4 + 4 + Len(p) + 10, 0, payloads))   \* msg_set_len
  \o Concat([i \in DOMAIN payloads |-> ImplMessage(payloads[i])])
ImplBuildHeader(tag, type, datalen, cid, variant) ==
  IF variant = "asis" THEN [raised |-> "struct.error", bytes |-> <<>>]
  ELSE [raised |-> "none",
        bytes |-> I32(2 + 2 + 4 + 2 + Len(cid) + datalen) \o I16(type) \o I16(0) \o I32(tag) \o I16(Len(cid)) \o cid]
=============================================================================
