---------------------------- MODULE KafkaCorrAbs ----------------------------
(***************************************************************************)
(* C15, last sentence -- "a reply is delivered to the request with the     *)
(* same correlation id" -- as a property-level machine over observables,   *)
(* for histories in which requests time out at the client and the broker   *)
(* answers them late (Kafka has no way to cancel a request).                *)
(*                                                                         *)
(* Observable events on one broker connection:                             *)
(*   LReq(r, api, corr)   request r was handed to the client and its frame *)
(*                        (header carrying correlation id corr) reached    *)
(*                        the broker.  One request = one frame = one *wire *)
(*                        instance*; instances are named by r, never by    *)
(*                        the id value, so that a re-used id is judged     *)
(*                        correctly.                                        *)
(*   LReply(w, api, corr, c)  the broker encoded a reply with content c in *)
(*                        answer to wire instance w (0: to no request at   *)
(*                        all) and put it on the connection.  The content  *)
(*                        of every reply is unique.                        *)
(*   LDone(r, raised, M)  the caller of request r was completed: with a    *)
(*                        value (raised = "none") or with the error named  *)
(*                        raised.  M = the replies (indices into lrep)     *)
(*                        whose content is what the caller was given.      *)
(*   LWire(r, corr)       (buffered connections, where a request may reach *)
(*                        the broker long after it was issued: LReq then   *)
(*                        carries no frame) the broker has completely      *)
(*                        received the frame of request r, header id corr  *)
(*   LEnd(unread)         end of the run, the client is quiescent and has  *)
(*                        `unread` bytes of the broker still unread.       *)
(* Check operators return "ok" or the first failing clause, evaluated in   *)
(* the state before the event; Upd operators are the unguarded (total)     *)
(* updates.                                                                 *)
(*                                                                         *)
(* Clauses (exactly the statement, for such histories):                    *)
(*   C15.replyMisdelivered  a request is completed with a value only if    *)
(*        that value is the content of a reply the broker encoded in       *)
(*        answer to that very request (instance), not to another one (be   *)
(*        it one with the same id value) and not to none                   *)
(*   C15.replyAfterTimeout  a request whose caller was told it failed      *)
(*        (timed out) does not receive a value later: the late reply is    *)
(*        delivered to nobody                                               *)
(*   C15.replyTwice         a request is given a reply at most once        *)
(*   C15.replyLost          a reply the client has read, whose request is  *)
(*        still waiting, is delivered to it: at the end no such request is *)
(*        left waiting, and a request is not told "timed out" at an        *)
(*        instant later than the one at which its reply reached the client *)
(*   C15.produceResponse / C15.metadataResponse  the request's own reply   *)
(*        was there but the value differs from what the broker encoded /   *)
(*        decoding raised                                                   *)
(* Re-using an id is not forbidden here (C11 does that): only delivering a *)
(* reply to a request it does not answer.  Errors other than "a value" are *)
(* not constrained (timeouts belong to the timeout properties).            *)
(***************************************************************************)
EXTENDS Integers, Sequences, FiniteSets, TLC

VARIABLES lreq,   \* r -> [api, corr, st]   st: "open" | "value" | "failed"
          lrep    \* sequence of [w, api, corr, c, used, nreq, t]  (nreq = requests issued when it was encoded,
                  \* t = the instant (ms) it was put on the connection)
lvars == <<lreq, lrep>>

LInit == lreq = <<>> /\ lrep = <<>>

LProduce == 0

RepliesTo(w) == {k \in DOMAIN lrep : lrep[k].w = w}
Own(r)       == {k \in RepliesTo(r) : ~lrep[k].used}
NReq         == Cardinality(DOMAIN lreq)

\* ------------------------------------------------------------------ LReq
LReqCheck(r) == IF r \in DOMAIN lreq \/ r = 0 THEN "harness.freshRequest" ELSE "ok"
LReqUpd(r, api, corr) ==
  /\ lreq' = lreq @@ (r :> [api |-> api, corr |-> corr, st |-> "open"])
  /\ UNCHANGED lrep

\* ------------------------------------------------------------------ LReply
\* Environment (sanity of the harness's broker, never a verdict on the code):
\*  - the broker echoes the correlation id of the request it answers;
\*  - a reply to no request names an id no unanswered request carries;
\*  - Kafka answers a request once: a second reply to the same instance is only generated while no
\*    newer request exists that any client could have given the (by then free) id.
LReplyCheck(w, corr) ==
  IF w # 0 /\ w \notin DOMAIN lreq THEN "harness.replyToUnknownRequest"
  ELSE IF w # 0 /\ lreq[w].corr # corr THEN "harness.brokerCorr"
  ELSE IF w = 0 /\ \E r \in DOMAIN lreq : lreq[r].corr = corr /\ RepliesTo(r) = {} THEN "harness.unknownCorrInUse"
  ELSE IF w # 0 /\ \E k \in RepliesTo(w) : lrep[k].nreq # NReq THEN "harness.duplicateAfterNewRequest"
  ELSE "ok"
LReplyUpd(w, api, corr, c, t) ==
  /\ lrep' = Append(lrep, [w |-> w, api |-> api, corr |-> corr, c |-> c, used |-> FALSE, nreq |-> NReq, t |-> t])
  /\ UNCHANGED lreq

\* ------------------------------------------------------------------ LWire
\* r = 0: a frame that carries none of the supplied requests
LWireCheck(r) ==
  IF r = 0 THEN "C15.supplied"
  ELSE IF r \notin DOMAIN lreq THEN "harness.unknownRequest"
  ELSE IF lreq[r].corr # -1 THEN "C15.suppliedOnce"          \* the request is on the wire a second time
  ELSE "ok"
LWireUpd(r, corr) ==
  /\ lreq' = IF r \in DOMAIN lreq THEN [lreq EXCEPT ![r].corr = corr] ELSE lreq
  /\ UNCHANGED lrep

\* ------------------------------------------------------------------ LDone
DecodeClause(r) == IF lreq[r].api = LProduce THEN "C15.produceResponse" ELSE "C15.metadataResponse"

\* t = the instant (ms) of the completion
LDoneCheck(r, raised, M, t) ==
  IF r \notin DOMAIN lreq THEN "harness.unknownRequest"
  ELSE IF raised = "none" THEN
    IF lreq[r].st = "value" THEN "C15.replyTwice"
    ELSE IF lreq[r].st = "failed" THEN "C15.replyAfterTimeout"
    ELSE IF Own(r) \cap M # {} THEN "ok"
    \* not its own reply: somebody else's (or nobody's), or nothing the broker ever encoded for it
    ELSE IF Own(r) = {} \/ M \ Own(r) # {} THEN "C15.replyMisdelivered"
    ELSE DecodeClause(r)
  ELSE
    IF lreq[r].st # "open" THEN "ok"
    \* its reply reached the client at an earlier instant and was not delivered
    ELSE IF raised = "TimeoutError" THEN (IF \E k \in Own(r) : lrep[k].t < t THEN "C15.replyLost" ELSE "ok")
    \* any other error while its own reply is there: that reply did not decode
    ELSE IF Own(r) # {} THEN DecodeClause(r)
    ELSE "ok"

LDoneUpd(r, raised, M) ==
  IF r \notin DOMAIN lreq THEN UNCHANGED lvars
  ELSE IF raised = "none" THEN
    /\ lreq' = [lreq EXCEPT ![r].st = "value"]
    /\ lrep' = IF Own(r) \cap M = {} THEN lrep
               ELSE LET k == CHOOSE k \in Own(r) \cap M : TRUE IN [lrep EXCEPT ![k].used = TRUE]
  ELSE
    /\ lreq' = IF lreq[r].st = "open" THEN [lreq EXCEPT ![r].st = "failed"] ELSE lreq
    /\ UNCHANGED lrep

\* ------------------------------------------------------------------ LEnd
LEndCheck(unread) ==
  IF unread = 0 /\ \E r \in DOMAIN lreq : lreq[r].st = "open" /\ Own(r) # {} THEN "C15.replyLost" ELSE "ok"
LEndUpd == UNCHANGED lvars
=============================================================================
