-------------------------- MODULE TransportAbsTrace --------------------------
(* Batched validation of transport-level traces against TransportAbs.       *)
EXTENDS TransportAbs, Json

Traces == ndJsonDeserialize(IOEnv.TRACE_FILE)
VARIABLES tid, l, verdict
xvars == <<tid, l, verdict>>
Ev == Traces[tid].ev

TInit == /\ tid \in 1..Len(Traces) /\ l = 1 /\ verdict = "ok" /\ TInit0(Traces[tid].cfg.t0)

CheckOf(e) ==
  CASE e.e = "Opened" -> OpenedCheck(e.ok = 1, e.t)
    [] e.e = "Req" -> ReqCheck(e.r, e.t)
    [] e.e = "Deliver" -> DeliverCheck(e.r, e.isErr = 1, e.t)
    [] e.e = "FailSeen" -> FailSeenCheck(e.must, e.errs, e.t)
    [] e.e = "OwnerClose" -> OwnerCloseCheck(e.t)
    [] e.e = "Faulted" -> FaultedCheck(e.t)
    [] e.e = "Quiet" -> QuietCheck(e.st, e.t)
    [] e.e = "Probe" -> ProbeCheck(e.written = 1, e.t)
    [] e.e = "FrameOut" -> FrameOutCheck(e.type, e.tag, e.t)
    [] e.e = "FrameIn" -> FrameInCheck(e.type, e.tag, e.t)
    [] e.e = "Silence" -> SilenceCheck(e.on = 1, e.t)
    [] e.e = "Reopen" -> ReopenCheck(e.t)
    [] e.e = "Age" -> AgeCheck(e.k, e.t)
    [] e.e = "Tagged" -> TaggedCheck(e.r, e.tag, e.t)
    [] e.e = "End" -> EndCheck(e.t)
    [] OTHER -> "harness.unknownEvent"

UpdOf(e) ==
  CASE e.e = "Opened" -> OpenedUpd(e.ok = 1, e.t)
    [] e.e = "Req" -> ReqUpd(e.r, e.t)
    [] e.e = "Deliver" -> DeliverUpd(e.r, e.isErr = 1, e.t)
    [] e.e = "FailSeen" -> FailSeenUpd(e.must, e.errs, e.t)
    [] e.e = "OwnerClose" -> OwnerCloseUpd(e.t)
    [] e.e = "Faulted" -> FaultedUpd(e.t)
    [] e.e = "Quiet" -> QuietUpd(e.st, e.t)
    [] e.e = "Probe" -> ProbeUpd(e.written = 1, e.t)
    [] e.e = "FrameOut" -> FrameOutUpd(e.type, e.tag, e.t)
    [] e.e = "FrameIn" -> FrameInUpd(e.type, e.tag, e.t)
    [] e.e = "Silence" -> SilenceUpd(e.on = 1, e.t)
    [] e.e = "Reopen" -> ReopenUpd(e.t)
    [] e.e = "Age" -> AgeUpd(e.k, e.t)
    [] e.e = "Tagged" -> TaggedUpd(e.r, e.tag, e.t)
    [] e.e = "End" -> EndUpd(e.t)

TNext == /\ verdict = "ok" /\ l <= Len(Ev)
         /\ LET e == Ev[l]
                chk == CheckOf(e)
            IN IF chk = "ok" THEN UpdOf(e) /\ l' = l + 1 /\ verdict' = "ok"
               ELSE verdict' = chk /\ l' = l /\ UNCHANGED tvars_
         /\ UNCHANGED tid
TSpec == TInit /\ [][TNext]_<<tvars_, xvars>>
Fin == verdict # "ok" \/ l > Len(Ev)
Report == Fin => PrintT(<<"V", tid, l - 1, verdict>>)
=============================================================================
