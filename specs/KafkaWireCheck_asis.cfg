SPECIFICATION Spec
CONSTANTS
  Topics <- TopicsQ
  Partitions <- PartsQ
  AcksSet <- AcksQ
  PayloadBytes = {0, 255}
  MaxPayloads = 1
  Corrs <- CorrsQ
  Variant = "asis"
INVARIANT ImplAgrees
CHECK_DEADLOCK FALSE
