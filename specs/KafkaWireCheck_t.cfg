SPECIFICATION Spec
CONSTANTS
  Topics <- TopicsT
  Partitions <- PartsT
  AcksSet <- AcksQ
  PayloadBytes = {0, 255}
  MaxPayloads = 3
  Corrs <- CorrsT
  Variant = "fixed"
INVARIANT RoundTrip
INVARIANT ChecksAccept
INVARIANT ChecksRejectCorruption
INVARIANT ImplAgrees
CHECK_DEADLOCK FALSE
