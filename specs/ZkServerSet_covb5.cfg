SPECIFICATION Spec
CONSTANTS
  Names = {1, 2}
  NValues = 2
  MaxEnv = 5
  MaxInc = 1
  MaxRaise = 0
  MaxBlock = 1
CHECK_DEADLOCK FALSE
