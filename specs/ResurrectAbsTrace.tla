-------------------------- MODULE ResurrectAbsTrace --------------------------
EXTENDS ResurrectAbs, Json
Traces == ndJsonDeserialize(IOEnv.TRACE_FILE)
VARIABLES tid, l, verdict
xvars == <<tid, l, verdict>>
Ev == Traces[tid].ev
TInit == /\ tid \in 1..Len(Traces) /\ l = 1 /\ verdict = "ok"
         /\ RInit(Traces[tid].cfg.t0, Traces[tid].cfg.initial, Traces[tid].cfg.max, Traces[tid].cfg.slack)
CheckOf(e) ==
  CASE e.e = "Reach" -> ReachCheck(e.up = 1, e.t)
    [] e.e = "Down" -> DownCheck(e.t)
    [] e.e = "Up" -> UpCheck(e.t)
    [] e.e = "Attempt" -> AttemptCheck(e.t)
    [] e.e = "AttemptEnd" -> AttemptEndCheck(e.ok = 1, e.t)
    [] e.e = "Req" -> ReqCheck(e.r, e.st, e.busy = 1, e.t)
    [] e.e = "Deliver" -> DeliverCheck(e.r, e.kind, e.t)
    [] e.e = "SrvRecv" -> SrvRecvCheck(e.r, e.t)
    [] e.e = "Quiet" -> QuietCheck(e.t)
    [] e.e = "Recover" -> RecoverCheck(e.tau, e.t)
    [] e.e = "ClientClosed" -> ClientClosedCheck(e.t)
    [] OTHER -> "harness.unknownEvent"
UpdOf(e) ==
  CASE e.e = "Reach" -> ReachUpd(e.up = 1, e.t)
    [] e.e = "Down" -> DownUpd(e.t)
    [] e.e = "Up" -> UpUpd(e.t)
    [] e.e = "Attempt" -> AttemptUpd(e.t)
    [] e.e = "AttemptEnd" -> AttemptEndUpd(e.ok = 1, e.t)
    [] e.e = "Req" -> ReqUpd(e.r, e.st, e.busy = 1, e.t)
    [] e.e = "Deliver" -> DeliverUpd(e.r, e.kind, e.t)
    [] e.e = "SrvRecv" -> SrvRecvUpd(e.r, e.t)
    [] e.e = "Quiet" -> QuietUpd(e.t)
    [] e.e = "Recover" -> RecoverUpd(e.tau, e.t)
    [] e.e = "ClientClosed" -> ClientClosedUpd(e.t)
TNext == /\ verdict = "ok" /\ l <= Len(Ev)
         /\ LET e == Ev[l]
                chk == CheckOf(e)
            IN IF chk = "ok" THEN UpdOf(e) /\ l' = l + 1 /\ verdict' = "ok"
               ELSE verdict' = chk /\ l' = l /\ UNCHANGED rvars
         /\ UNCHANGED tid
TSpec == TInit /\ [][TNext]_<<rvars, xvars>>
Fin == verdict # "ok" \/ l > Len(Ev)
Report == Fin => PrintT(<<"V", tid, l - 1, verdict>>)
=============================================================================
