SPECIFICATION Spec
CONSTANTS
  Calls = {1, 2}
  HasDl = {1, 2}
  MaxPings = 0
  Rooms = {0, 5}
  Drains = {3, 16}
  Cap = 16
  Lowat = 1
  Variant = "asis"
INVARIANT TypeOK
INVARIANT WholeFramesInOrder
INVARIANT AbsAccepts
CHECK_DEADLOCK FALSE
