------------------------------ MODULE VarzAbs ------------------------------
(***************************************************************************)
(* C18 -- metrics as their users see them (property-level oracle).          *)
(*                                                                         *)
(* A *source* is the 4-tuple <<method, service, endpoint, client_id>> of   *)
(* small integers (0 stands for None).  The machine never sees Source      *)
(* *objects*: two recordings against equal tuples are recordings against   *)
(* the same source, whatever objects carried them.  That is the property.  *)
(*                                                                         *)
(* Observable events:                                                      *)
(*   Inc(m, t, amt)     counter / rate metric m incremented for source t    *)
(*   Set(m, t, v)       gauge m set to v for source t                       *)
(*   IncRun(m, ts, amts)  a run of increments in one event: for i = 1..Len(ts)  *)
(*        in order, Inc(m, ts[i], amts[i]) (compact encoding of histories   *)
(*        with thousands of sources; same meaning, nothing sampled)         *)
(*   Sample(m, t, v, room, took)  sample v recorded for percentile metric m, *)
(*        source t.  room/took observe where the recording landed:          *)
(*        room = 1: before the call the series of t in VARZ_DATA[m] was     *)
(*        absent or held fewer samples than the reservoir capacity (so the  *)
(*        reservoir cannot have declined the sample), 0: it was full,       *)
(*        -1: not observable; took = 1: after the call VARZ_DATA[m] has a    *)
(*        series for t and it differs from before the call (it took the     *)
(*        sample), 0: no series for t, or the series is unchanged,          *)
(*        -1: not observable                                                *)
(*   Tick(dt)           the low-resolution clock advanced by dt seconds.    *)
(*        C18 does not mention time or age: the machine ignores the event   *)
(*        (it is in the trace so that a history can be read and replayed).  *)
(*   Agg(m, sel, key, total, series, cnt, pcts, lo, hi)                     *)
(*        one entry of VarzAggregator.Aggregate(..., key_selector = sel):  *)
(*        aggregate `total` (scaled by ascale) reported under `key` for    *)
(*        metric m; series = len(VARZ_DATA[m]); cnt = number of series the  *)
(*        aggregator folded into this entry; pcts = the reported           *)
(*        percentiles in rising percentile order (p50, p90, p99, p99.9,     *)
(*        p99.99; scaled, monotone rounding); lo/hi = smallest / largest sample *)
(*        retained for the sources of this entry (-1: not observable)      *)
(*   AggDone(m, sel, nkeys)  the aggregate of metric m had nkeys entries    *)
(*   PassBegin / PassEnd   an Aggregate call starts / returns while other    *)
(*        greenlets keep recording.  The entries of that pass are in the     *)
(*        trace right before its PassEnd.  "Aggregated ... equal the sum of   *)
(*        all increments recorded": recorded up to when?  An aggregate taken  *)
(*        while recordings go on may reflect any instant of the pass, so an   *)
(*        entry (and the number of entries) is accepted iff it is right for   *)
(*        the recordings made up to SOME instant between PassBegin and        *)
(*        PassEnd (awin = the states of the machine at those instants; every  *)
(*        single recording is an instant).  Each entry may pick its own       *)
(*        instant.  Outside a pass the only instant is now.                   *)
(*                                                                         *)
(* Check operators return "ok" or the name of the first failing clause,    *)
(* evaluated in the state before the event; Upd operators are unguarded.   *)
(* Clauses (exactly the sentences of C18, nothing more):                   *)
(*   C18.sum      counter and rate metrics aggregated under a key equal    *)
(*                the sum of all increments recorded for the sources that  *)
(*                the selector maps to that key (and a key with recorded   *)
(*                increments is reported at all)                           *)
(*   C18.gauge    a gauge reported for a single source is the last value   *)
(*                set for it (aggregates over several *distinct* sources   *)
(*                are not judged: the statement does not define them)      *)
(*   C18.oneSeries  recordings against equal sources land in one series:   *)
(*                the number of series of a metric is at most the number   *)
(*                of distinct sources recorded, and an aggregate entry is  *)
(*                folded from at most as many series as it has distinct    *)
(*                sources; and a sample recorded for source t while t's     *)
(*                series had room lands in that series (it is not put into  *)
(*                a second series that VARZ_DATA does not show), whichever  *)
(*                holder or equal Source object carried the recording       *)
(*   C18.percentileBounds  percentiles reported for a single source:       *)
(*                lo <= p50 <= p90 <= p99 <= p99.9 <= p99.99 <= hi.         *)
(*                An entry that says it was folded from no series at all    *)
(*                (cnt = 0: scales' aggregator leaves out reservoirs not    *)
(*                updated for MAX_AGG_AGE and then reports zeros) reports   *)
(*                percentiles of nothing: there is no retained sample to    *)
(*                compare with, the clause does not apply.  The statement   *)
(*                neither grants nor forbids an age limit, so the oracle    *)
(*                knows no age: it never *requires* an old sample to be     *)
(*                dropped or kept; bounds are judged against the samples    *)
(*                the contributing series retains (lo, hi as observed)      *)
(***************************************************************************)
EXTENDS Integers, Sequences, FiniteSets, FiniteSetsExt, TLC

VARIABLES akinds,   \* sequence: metric id -> kind
          ascale,   \* scale of reported totals / percentiles (1000)
          adata,    \* metric id -> [source tuple -> [sum, last, vals]]
          awin      \* open pass: the values adata had since PassBegin; {} when no pass is open

avars == <<akinds, ascale, adata, awin>>

SumKinds == {"counter", "rate"}
IncKinds == {"counter", "rate", "aggtimer"}
PctKinds == {"timer", "avgrate"}
AllKinds == IncKinds \cup PctKinds \cup {"gauge"}
Selectors == {"default", "tuple", "service", "endpoint", "method"}

\* The key a selector maps a source to.  "default" is scales' DefaultKeySelector
\* (service, client_id); the others are what callers pass as key_selector.
KeyOf(sel, t) ==
  CASE sel = "default"  -> <<t[2], t[4]>>
    [] sel = "tuple"    -> t
    [] sel = "service"  -> <<t[2]>>
    [] sel = "endpoint" -> <<t[2], t[3]>>
    [] sel = "method"   -> <<t[1], t[2]>>

AInit(kinds, scale) ==
  /\ akinds = kinds
  /\ ascale = scale
  /\ adata = [m \in DOMAIN kinds |-> <<>>]
  /\ awin = {}

Fresh == [sum |-> 0, last |-> 0, vals |-> {}]
Cell(m, t) == IF t \in DOMAIN adata[m] THEN adata[m][t] ELSE Fresh
Win == awin' = IF awin = {} THEN {} ELSE awin \cup {adata'}       \* every recording inside a pass is an instant
Put(m, t, c) == /\ adata' = [adata EXCEPT ![m] = [x \in DOMAIN @ \cup {t} |-> IF x = t THEN c ELSE @[x]]]
                /\ Win

UpdSane(m, t, kinds) ==
  IF m \notin DOMAIN akinds THEN "harness.metric"
  ELSE IF akinds[m] \notin kinds THEN "harness.kind"
  ELSE IF Len(t) # 4 THEN "harness.source"
  ELSE "ok"

IncCheck(m, t, amt) == UpdSane(m, t, IncKinds)
IncUpd(m, t, amt) == Put(m, t, [Cell(m, t) EXCEPT !.sum = @ + amt]) /\ UNCHANGED <<akinds, ascale>>

SetCheck(m, t, v) == UpdSane(m, t, {"gauge"})
SetUpd(m, t, v) == Put(m, t, [Cell(m, t) EXCEPT !.last = v]) /\ UNCHANGED <<akinds, ascale>>

IncRunSane(m, ts, amts) ==
  IF m \notin DOMAIN akinds THEN "harness.metric"
  ELSE IF akinds[m] \notin IncKinds THEN "harness.kind"
  ELSE IF Len(ts) # Len(amts) \/ Len(ts) = 0 THEN "harness.run"
  ELSE IF \E i \in DOMAIN ts : Len(ts[i]) # 4 THEN "harness.source"
  ELSE "ok"
IncRunCheck(m, ts, amts) == IncRunSane(m, ts, amts)
\* the state after Inc(m, ts[1], amts[1]), ..., Inc(m, ts[n], amts[n]); a source may occur several times
IncRunUpd(m, ts, amts) ==
  LET R == {ts[i] : i \in DOMAIN ts}
      add == [t \in R |-> FoldSet(LAMBDA i, acc : IF ts[i] = t THEN acc + amts[i] ELSE acc, 0, DOMAIN ts)]
      old == adata[m]
  IN /\ adata' = [adata EXCEPT ![m] = [x \in DOMAIN old \cup R |->
                     IF x \in R THEN LET c == IF x \in DOMAIN old THEN old[x] ELSE Fresh
                                     IN [c EXCEPT !.sum = @ + add[x]]
                     ELSE old[x]]]
     /\ Win
     /\ UNCHANGED <<akinds, ascale>>

\* "lands in one series": the reservoir had room, yet the series of t that VARZ_DATA shows did not take the sample
SampleCheck(m, t, v, room, took) ==
  IF UpdSane(m, t, PctKinds) # "ok" THEN UpdSane(m, t, PctKinds)
  ELSE IF room \notin {-1, 0, 1} \/ took \notin {-1, 0, 1} THEN "harness.landed"
  ELSE IF room = 1 /\ took = 0 THEN "C18.oneSeries"
  ELSE "ok"
SampleUpd(m, t, v) == Put(m, t, [Cell(m, t) EXCEPT !.vals = @ \cup {v}]) /\ UNCHANGED <<akinds, ascale>>

\* ---- aggregation -----------------------------------------------------------
\* d is the value of adata at the instant the entry is judged against
Group(d, m, sel, key) == {t \in DOMAIN d[m] : KeyOf(sel, t) = key}
GroupSum(d, m, G) == FoldSet(LAMBDA t, acc : acc + d[m][t].sum, 0, G)
TheOne(G) == CHOOSE t \in G : TRUE

PctOk(d, m, t, pcts, lo, hi) ==
  LET V == d[m][t].vals
      obs == lo \in V /\ hi \in V      \* observed retained bounds are usable
      L == IF obs THEN lo ELSE Min(V)  \* otherwise every recorded sample bounds the retained ones
      H == IF obs THEN hi ELSE Max(V)
  IN /\ ascale * L <= pcts[1]
     /\ \A i \in 1..(Len(pcts) - 1) : pcts[i] <= pcts[i + 1]
     /\ pcts[Len(pcts)] <= ascale * H

\* The set of C18 clauses this aggregate entry breaks at instant d.  A key no recorded source maps to
\* has an empty group: its counter/rate total must be 0 and no series may feed it.
AggFailAt(d, m, sel, key, total, series, cnt, pcts, lo, hi) ==
  LET G == Group(d, m, sel, key)
      kind == akinds[m]
  IN {c \in {"C18.sum", "C18.gauge", "C18.percentileBounds", "C18.oneSeries"} :
        \/ c = "C18.sum" /\ kind \in SumKinds /\ total # ascale * GroupSum(d, m, G)
        \/ c = "C18.gauge" /\ kind = "gauge" /\ Cardinality(G) = 1
                           /\ total # ascale * d[m][TheOne(G)].last
        \/ c = "C18.percentileBounds" /\ kind \in PctKinds /\ Cardinality(G) = 1 /\ cnt # 0
                           /\ ~PctOk(d, m, TheOne(G), pcts, lo, hi)
        \/ c = "C18.oneSeries" /\ (series > Cardinality(DOMAIN d[m]) \/ cnt > Cardinality(G))}

\* the instants an aggregate may reflect: those of the open pass, else now
Instants == IF awin = {} THEN {adata} ELSE awin

\* right at some instant: no clause broken; otherwise the clauses broken now
AggFail(m, sel, key, total, series, cnt, pcts, lo, hi) ==
  IF \E d \in Instants : AggFailAt(d, m, sel, key, total, series, cnt, pcts, lo, hi) = {} THEN {}
  ELSE AggFailAt(adata, m, sel, key, total, series, cnt, pcts, lo, hi)

First(F) == IF "C18.sum" \in F THEN "C18.sum"
            ELSE IF "C18.gauge" \in F THEN "C18.gauge"
            ELSE IF "C18.percentileBounds" \in F THEN "C18.percentileBounds"
            ELSE IF "C18.oneSeries" \in F THEN "C18.oneSeries"
            ELSE "ok"

AggCheck(m, sel, key, total, series, cnt, pcts, lo, hi) ==
  IF m \notin DOMAIN akinds THEN "harness.metric"
  ELSE IF sel \notin Selectors THEN "harness.selector"
  ELSE IF akinds[m] \in PctKinds /\ Len(pcts) = 0 THEN "harness.pcts"
  ELSE First(AggFail(m, sel, key, total, series, cnt, pcts, lo, hi))

\* A key whose sources have recorded data must be reported.
AggDoneFail(m, sel, nkeys) ==
  LET Want(d) == Cardinality({KeyOf(sel, t) : t \in DOMAIN d[m]})
  IN IF \E d \in Instants : nkeys >= Want(d) THEN {}
     ELSE IF akinds[m] \in SumKinds THEN {"C18.sum"}
     ELSE IF akinds[m] = "gauge" THEN {"C18.gauge"}
     ELSE {}

AggDoneCheck(m, sel, nkeys) ==
  IF m \notin DOMAIN akinds THEN "harness.metric"
  ELSE IF sel \notin Selectors THEN "harness.selector"
  ELSE First(AggDoneFail(m, sel, nkeys))

AggUpd == UNCHANGED avars

PassBeginCheck == IF awin # {} THEN "harness.pass" ELSE "ok"
PassBeginUpd == awin' = {adata} /\ UNCHANGED <<akinds, ascale, adata>>
PassEndCheck == IF awin = {} THEN "harness.pass" ELSE "ok"
PassEndUpd == awin' = {} /\ UNCHANGED <<akinds, ascale, adata>>
PassBegin == PassBeginCheck = "ok" /\ PassBeginUpd
PassEnd == PassEndCheck = "ok" /\ PassEndUpd

Inc(m, t, amt) == IncCheck(m, t, amt) = "ok" /\ IncUpd(m, t, amt)
Set(m, t, v) == SetCheck(m, t, v) = "ok" /\ SetUpd(m, t, v)
IncRun(m, ts, amts) == IncRunCheck(m, ts, amts) = "ok" /\ IncRunUpd(m, ts, amts)
Sample(m, t, v, room, took) == SampleCheck(m, t, v, room, took) = "ok" /\ SampleUpd(m, t, v)
TickCheck(dt) == IF dt < 0 THEN "harness.tick" ELSE "ok"
Tick(dt) == TickCheck(dt) = "ok" /\ AggUpd
Agg(m, sel, key, total, series, cnt, pcts, lo, hi) ==
  AggCheck(m, sel, key, total, series, cnt, pcts, lo, hi) = "ok" /\ AggUpd
AggDone(m, sel, nkeys) == AggDoneCheck(m, sel, nkeys) = "ok" /\ AggUpd
=============================================================================
