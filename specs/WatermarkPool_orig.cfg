SPECIFICATION Spec
CONSTANTS
  MinS = {0, 1}
  MaxS = {1, 2}
  QS = {1, 2}
  NReq = 3
  NConn = 3
  MaxDie = 0
  MaxTmo = 1
  ExtClose = FALSE
  FixPQ = FALSE
  FixDeq = TRUE
  FixMaxW = TRUE
INVARIANT StopOK
CHECK_DEADLOCK FALSE
