SPECIFICATION Spec
CONSTANTS
  MaxPayload = 4
  Variants = {"varz", "raw"}
INVARIANT NoViolation
INVARIANT Structural
INVARIANT Delivered
CHECK_DEADLOCK FALSE
