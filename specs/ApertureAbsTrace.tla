-------------------------- MODULE ApertureAbsTrace --------------------------
(* Batched validation of implementation traces against ApertureAbs (C06).   *)
(* Trace: cfg = [minS,maxS,minL,maxL,sc,win,tol,btol,ref,rtol,S0,a0,i0,t0];  *)
(* events:                                                                   *)
(*  Join/Leave{m}  Create{c,m}  Chan{c,st}  OpenCall{c}  OpenDone{c,ok}      *)
(*  CloseSeen{c}  Tick  Q{proj,act,idl}  Disp{r,c,s,..}  Comp{r,s,..}        *)
(* every event with t (ms) and the gauges a,i after it; Disp/Comp with s=1   *)
(* carry the sample fields lo,hi,sB,iB,hB,avg (see ApertureAbs); every        *)
(* Disp/Comp carries u, the microseconds of its instant within the ms t.      *)
EXTENDS ApertureAbs, Json, IOUtils

Traces == ndJsonDeserialize(IOEnv.TRACE_FILE)

VARIABLES tid, l, verdict, reqs
tvars == <<tid, l, verdict, reqs>>

Ev == Traces[tid].ev
Cfg == Traces[tid].cfg

TInit == /\ tid \in 1..Len(Traces)
         /\ l = 1
         /\ verdict = "ok"
         /\ reqs = {}
         /\ AInit([minS |-> Cfg.minS, maxS |-> Cfg.maxS, minL |-> Cfg.minL, maxL |-> Cfg.maxL,
                   sc |-> Cfg.sc, win |-> Cfg.win, tol |-> Cfg.tol, btol |-> Cfg.btol,
                   ref |-> Cfg.ref, rtol |-> Cfg.rtol],
                  {Cfg.S0[x] : x \in DOMAIN Cfg.S0}, Cfg.a0, Cfg.i0, Cfg.t0)

Samp(e, k, r) == [k |-> k, t |-> e.t, u |-> e.u, ref |-> r, lo |-> e.lo, hi |-> e.hi, sB |-> e.sB, iB |-> e.iB, hB |-> e.hB,
               avg |-> e.avg, a |-> e.a, i |-> e.i]

CheckOf(e, r) ==
  CASE e.e = "Join" -> JoinCheck(ab, e.m, e.t, e.a, e.i)
    [] e.e = "Leave" -> LeaveCheck(ab, e.m, e.t, e.a, e.i)
    [] e.e \in {"Create", "CloseSeen", "Tick"} -> PlainCheck(ab, e.t, e.a, e.i)
    [] e.e = "Chan" -> EnvCheck(ab, e.t, e.a, e.i)
    [] e.e = "OpenCall" -> OpenCallCheck(ab, e.c, e.t, e.a, e.i)
    [] e.e = "OpenDone" -> OpenDoneCheck(ab, e.c, e.ok, e.t, e.a, e.i)
    [] e.e = "Q" -> QuietCheck(ab, e.t, e.a, e.i, e.proj, e.act, e.idl)
    [] e.e = "Disp" -> IF e.r \in reqs THEN "harness.freshRequest"
                       ELSE IF e.c < 0 THEN NoMemberCheck(ab, e.t, e.a, e.i)
                       ELSE IF e.s = 1 THEN SampleCheck(ab, Samp(e, 1, r))
                       ELSE BlindCheck(ab, 1, e.t, e.u, e.a, e.i)
    [] e.e = "Comp" -> IF e.r \notin reqs THEN "harness.knownRequest"
                       ELSE IF e.s = 1 THEN SampleCheck(ab, Samp(e, -1, r))
                       ELSE BlindCheck(ab, -1, e.t, e.u, e.a, e.i)
    [] OTHER -> "harness.unknownEvent"

UpdOf(e, r) ==
  CASE e.e = "Join" -> JoinUpd(ab, e.m, e.t, e.a, e.i)
    [] e.e = "Leave" -> LeaveUpd(ab, e.m, e.t, e.a, e.i)
    [] e.e \in {"Create", "CloseSeen", "Tick"} -> PlainUpd(ab, e.t, e.a, e.i)
    [] e.e = "Chan" -> EnvUpd(ab, e.t, e.a, e.i)
    [] e.e = "OpenCall" -> OpenCallUpd(ab, e.c, e.t, e.a, e.i)
    [] e.e = "OpenDone" -> OpenDoneUpd(ab, e.c, e.ok, e.t, e.a, e.i)
    [] e.e = "Q" -> QuietUpd(ab, e.t, e.a, e.i, e.proj, e.act, e.idl)
    [] e.e = "Disp" -> IF e.c < 0 THEN NoMemberUpd(ab, e.t, e.a, e.i)
                       ELSE IF e.s = 1 THEN SampleUpd(ab, Samp(e, 1, r))
                       ELSE BlindUpd(ab, 1, e.t, e.u, e.a, e.i)
    [] e.e = "Comp" -> IF e.s = 1 THEN SampleUpd(ab, Samp(e, -1, r))
                       ELSE BlindUpd(ab, -1, e.t, e.u, e.a, e.i)

ReqsOf(e) ==
  CASE e.e = "Disp" -> IF e.c < 0 THEN reqs ELSE reqs \cup {e.r}
    [] e.e = "Comp" -> reqs \ {e.r}
    [] OTHER -> reqs

\* One event: verdict in the pre-state and successor.  The reference smoothing after a get/put (RefOf) is evaluated
\* once and handed to check and update.  (TLC caches LET values inside an expression but not the LETs of an action,
\* hence the step is computed as one value and bound by \E over a singleton.)
StepOf(e) ==
  LET r == IF e.e = "Disp" THEN RefOf(ab, 1, e.t, e.u) ELSE IF e.e = "Comp" THEN RefOf(ab, -1, e.t, e.u) ELSE NoRef
      chk == CheckOf(e, r)
  IN [chk |-> chk, nxt |-> IF chk = "ok" THEN UpdOf(e, r) ELSE ab]

TNext == /\ verdict = "ok"
         /\ l <= Len(Ev)
         /\ \E res \in {StepOf(Ev[l])} :
              IF res.chk = "ok"
              THEN ab' = res.nxt /\ reqs' = ReqsOf(Ev[l]) /\ l' = l + 1 /\ verdict' = "ok"
              ELSE verdict' = res.chk /\ l' = l /\ UNCHANGED <<ab, reqs>>
         /\ UNCHANGED <<tid, acfg>>

TSpec == TInit /\ [][TNext]_<<avars, tvars>>

Done == verdict # "ok" \/ l > Len(Ev)
Report == Done => PrintT(<<"V", tid, l - 1, verdict>>)
=============================================================================
