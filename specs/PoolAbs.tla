------------------------------- MODULE PoolAbs -------------------------------
(***************************************************************************)
(* C07 -- the watermark pool as its neighbours see it (property-level      *)
(* oracle).  Observation points: the connection provider (Create, Closed), *)
(* each connection (Opened, Start = the connection sees a request, Done =  *)
(* the connection answers it, Die = the connection's state turns Closed by *)
(* itself), the callers (Arrive, TimedOut = the caller's timeout starts to *)
(* abort the call, Deliver = the caller's response sink gets a message),   *)
(* the pool's public `state` (field pst of Q / Stop), and an owner-        *)
(* initiated Close() of the pool (PoolClose).                              *)
(*                                                                         *)
(* The whole abstract state is ONE record `a` and the machine is given as  *)
(* two pure operators  Chk(a, e)  ("ok" or the name of the first failing   *)
(* clause, evaluated in the state before the event) and  Upd(a, e)  (the   *)
(* unguarded update), because one code segment of the pool emits several   *)
(* observable events (a release that closes the pool fails every waiter in *)
(* the same quantum) and the code-shaped spec folds them in one step.      *)
(* Events are records shaped exactly like the JSON trace events:           *)
(*   [e|->"Arrive",r]  [e|->"Create",c,r]  (r = request inside whose       *)
(*   arrival the connection was created, 0 = by pool.Open())               *)
(*   [e|->"Opened",c,ok]  [e|->"Start",r,c]  [e|->"Done",r,c,k]            *)
(*   [e|->"TimedOut",r]  [e|->"Deliver",r,k]  k in ok|err|timeout|maxw|    *)
(*   closed|other   [e|->"Die",c]  [e|->"Closed",c]  [e|->"PoolClose"]     *)
(*   [e|->"PoolOpen"] (the owner calls Open() on the pool again)           *)
(*   [e|->"PState",pst] (the pool's public state was seen to have changed) *)
(*   [e|->"Q",pst]  (scheduler quiescent)  [e|->"Stop",pst] (quiescent and *)
(*   every connection has answered everything: traffic has stopped)        *)
(*   [e|->"Probe",lo,hi] (the burst of requests lo..hi has been issued     *)
(*   after a Stop, all connections healthy, opens succeed at once).        *)
(*                                                                         *)
(* Vocabulary.  A request is *waiting* while it has arrived, nothing has   *)
(* been delivered to it, it has not timed out, it has not reached a        *)
(* connection and no connection was created for it (st = "pend", own = 0). *)
(* A connection is *live* from Create until Closed or Die (a failed Open   *)
(* counts as Die).  A connection is *held* by the request it was lent to   *)
(* from Start until the connection answers (Done) or the holder times out  *)
(* (the pool takes the connection back on a timeout although the           *)
(* connection is still busy: that is the documented sink-stack semantics,  *)
(* not judged here).  After the pool has closed (a dead connection was     *)
(* released, PoolClose, or the pool reports Closed) -- and also after its  *)
(* owner opened it again (PoolOpen) -- only C07.closeFailsWaiters,         *)
(* C07.exclusive and the in-use form of C07.max are still judged: the      *)
(* statement makes no exception for closed pools in its first sentence,    *)
(* the other sentences speak about pools that are in service.              *)
(*                                                                         *)
(* Clauses (exactly the sentences of the statement of C07):                *)
(*  C07.max        Create while max_watermark connections are live; Create *)
(*                 or Start that makes more than max_watermark connections *)
(*                 work at once (lent or being opened) -- this form also   *)
(*                 after a close / re-open.                                *)
(*  C07.exclusive  Start on a connection that is held.                     *)
(*  C07.queueBound more than max_queue_len requests waiting; a max-waiters *)
(*                 error that is late (not the immediate outcome of the    *)
(*                 arrival) or given although fewer than max_queue_len     *)
(*                 requests are queued (requests that timed out while      *)
(*                 queued are counted as possibly still queued: lenient).  *)
(*  C07.fifo       a waiting request reaches a connection while a request  *)
(*                 that arrived earlier is still waiting.                  *)
(*  C07.workConserving  quiescent, a healthy connection nobody holds       *)
(*                 (and that has answered every request it was given)      *)
(*                 exists and a request is waiting.                        *)
(*  C07.noLeak     a request that timed out while waiting (or is otherwise *)
(*                 no longer waiting) is handed a connection; traffic has  *)
(*                 stopped and a request is still pending; more than       *)
(*                 min_watermark connections are retained after traffic    *)
(*                 stopped; a probe burst of max_watermark requests does   *)
(*                 not reach max_watermark connections.                    *)
(*  C07.closeFailsWaiters  a connection is released dead: by the next      *)
(*                 quiescent point the pool reports Closed and every       *)
(*                 request waiting at that moment got exactly one          *)
(*                 delivery, a service-closed error; such a request is     *)
(*                 never started afterwards.                               *)
(* harness.* clauses are trace-sanity conditions (machinery failure).      *)
(***************************************************************************)
EXTENDS Integers, Sequences, FiniteSets, TLC

VARIABLE abs

Unb == 1000     \* value of qlen that stands for "unbounded" (Int.MaxValue in the code)

AInit0(mn, mx, ql) ==
  [min |-> mn, max |-> mx, qlen |-> ql,
   conn |-> <<>>,      \* c -> "opening" | "open" | "dead" | "closed"
   hold |-> <<>>,      \* c -> request holding it, 0 = nobody
   late |-> <<>>,      \* c -> requests that timed out while holding c and are still unanswered by c
   req |-> <<>>,       \* r -> [arr, own, st, nd]
   narr |-> 0,         \* arrivals so far (arrival order)
   fresh |-> 0,        \* the request whose Arrive was the previous event (Closed events aside), else 0
   pclosed |-> FALSE,  \* the pool has closed (or must have)
   expc |-> FALSE,     \* a dead connection was released: the pool must report Closed
   must |-> {},        \* requests that were waiting then: exactly one service-closed error each
   stale |-> 0]        \* requests that timed out while waiting (may still occupy queue slots)

Reqs(a) == DOMAIN a.req
Conns(a) == DOMAIN a.conn
LiveWaiting(a) == {r \in Reqs(a) : a.req[r].st = "pend" /\ a.req[r].own = 0}
LiveConns(a) == {c \in Conns(a) : a.conn[c] \in {"opening", "open"}}
\* a connection nobody holds and that is not still working on a timed-out request (a pool
\* may, but need not, reuse a connection before it has answered the request that timed out)
Free(a) == {c \in Conns(a) : a.conn[c] = "open" /\ a.hold[c] = 0 /\ a.late[c] = {}}
Holder(a, r) == {c \in Conns(a) : a.hold[c] = r}
\* connections working for the pool's callers right now: lent to a request, or being opened.
\* They all exist, so more than max_watermark of them is more than max_watermark in existence --
\* whatever happened to the pool before (closed, closed and opened again).  (Connections that a
\* closed pool gave up without closing them are deliberately not counted: the statement does not
\* say what a closed pool does with the connections it had.)
InUse(a) == {c \in Conns(a) : a.hold[c] # 0 \/ a.conn[c] = "opening"}

\* connection c is given back by its holder; if it is dead the pool must close
Rel(a, c) ==
  LET a1 == [a EXCEPT !.hold[c] = 0] IN
  IF a.conn[c] = "dead" /\ ~a.pclosed
  THEN [a1 EXCEPT !.pclosed = TRUE, !.expc = TRUE, !.must = LiveWaiting(a)]
  ELSE a1

\* the request that is just arriving is not yet "waiting": it may still be started,
\* get a connection created, or be rejected within its own arrival (dead cached
\* connections may be closed first)
Excl(a, e) == IF a.fresh # 0 /\ (e.e = "Closed" \/ (e.e \in {"Create", "Start", "Deliver", "TimedOut"} /\ e.r = a.fresh))
              THEN {a.fresh} ELSE {}
BoundOk(a, e) == a.pclosed \/ Cardinality(LiveWaiting(a) \ Excl(a, e)) <= a.qlen

StartChk(a, e) ==
  IF e.c \notin Conns(a) \/ e.r \notin Reqs(a) THEN "harness.known"
  ELSE LET q == a.req[e.r] IN
    IF e.r \in a.must THEN "C07.closeFailsWaiters"     \* started although failed by the close
    ELSE IF a.hold[e.c] # 0 THEN "C07.exclusive"        \* also for a pool that has been closed
    ELSE IF Cardinality(InUse(a) \ {e.c}) + 1 > a.max THEN "C07.max"   \* idem
    ELSE IF a.pclosed THEN "ok"
    ELSE IF q.st = "pend"
         THEN IF q.own = 0 /\ \E w \in LiveWaiting(a) \ {e.r} : a.req[w].arr < q.arr
              THEN "C07.fifo" ELSE "ok"
    \* timed out while its own connection was being opened: the pool forwards it when the
    \* open completes (whether that is right is C12's business, not C07's)
    ELSE IF q.st = "tmoO" /\ q.own = e.c THEN "ok"
    \* timed out while waiting / already served: must be skipped, the connection is lost on it
    ELSE "C07.noLeak"

DeliverChk(a, e) ==
  IF e.r \notin Reqs(a) THEN "harness.known"
  ELSE LET q == a.req[e.r] IN
    IF e.r \in a.must /\ (q.nd >= 1 \/ e.k # "closed") THEN "C07.closeFailsWaiters"
    ELSE IF e.k = "maxw" /\ ~a.pclosed
    THEN IF q.st # "pend" \/ q.own # 0 \/ a.fresh # e.r THEN "C07.queueBound"
         ELSE IF Cardinality(LiveWaiting(a) \ {e.r}) + a.stale < a.qlen THEN "C07.queueBound"
         ELSE "ok"
    ELSE "ok"

QChk(a, e) ==
  IF a.expc /\ e.pst # "closed" THEN "C07.closeFailsWaiters"
  ELSE IF \E r \in a.must : a.req[r].nd = 0 THEN "C07.closeFailsWaiters"
  ELSE IF ~a.pclosed /\ e.pst # "closed" /\ Free(a) # {} /\ LiveWaiting(a) # {}
       THEN "C07.workConserving"
  ELSE "ok"

StopChk(a, e) ==
  IF QChk(a, e) # "ok" THEN QChk(a, e)
  ELSE IF a.pclosed \/ e.pst = "closed" THEN "ok"
  ELSE IF \E c \in Conns(a) : a.hold[c] # 0 \/ a.conn[c] = "opening" THEN "harness.notStopped"
  ELSE IF \E r \in Reqs(a) : a.req[r].st = "pend" THEN "C07.noLeak"
  ELSE IF Cardinality(LiveConns(a)) > a.min THEN "C07.noLeak"
  ELSE "ok"

ProbeChk(a, e) ==
  IF a.pclosed THEN "ok"
  ELSE IF \E r \in e.lo..e.hi : r \notin Reqs(a) \/ a.req[r].st # "run" THEN "C07.noLeak"
  ELSE "ok"

Known == {"Arrive", "Create", "Opened", "Start", "Done", "TimedOut", "Deliver", "Die", "Closed",
          "PoolClose", "PoolOpen", "PState", "Q", "Stop", "Probe"}

Chk(a, e) ==
  IF e.e \notin Known THEN "harness.unknownEvent"
  ELSE IF ~BoundOk(a, e) THEN "C07.queueBound"
  ELSE CASE e.e = "Arrive" -> IF e.r \in Reqs(a) THEN "harness.freshReq" ELSE "ok"
    [] e.e = "Create" -> IF e.c \in Conns(a) THEN "harness.freshConn"
                         ELSE IF ~a.pclosed /\ Cardinality(LiveConns(a)) + 1 > a.max THEN "C07.max"
                         ELSE IF Cardinality(InUse(a)) + 1 > a.max THEN "C07.max"
                         ELSE "ok"
    [] e.e \in {"Opened", "Die", "Closed"} -> IF e.c \notin Conns(a) THEN "harness.known" ELSE "ok"
    [] e.e = "Start" -> StartChk(a, e)
    [] e.e = "Done" -> IF e.c \notin Conns(a) \/ e.r \notin Reqs(a) THEN "harness.known" ELSE "ok"
    [] e.e = "TimedOut" -> IF e.r \notin Reqs(a) THEN "harness.known" ELSE "ok"
    [] e.e = "Deliver" -> DeliverChk(a, e)
    [] e.e \in {"PoolClose", "PoolOpen", "PState"} -> "ok"
    [] e.e = "Q" -> QChk(a, e)
    [] e.e = "Stop" -> StopChk(a, e)
    [] e.e = "Probe" -> ProbeChk(a, e)

Upd(a, e) ==
  LET b == [a EXCEPT !.fresh = IF e.e = "Arrive" THEN e.r ELSE IF e.e = "Closed" THEN @ ELSE 0] IN
  CASE e.e = "Arrive" ->
         [b EXCEPT !.req = @ @@ (e.r :> [arr |-> a.narr + 1, own |-> 0, st |-> "pend", nd |-> 0]),
                   !.narr = @ + 1]
    [] e.e = "Create" ->
         [b EXCEPT !.conn = @ @@ (e.c :> "opening"), !.hold = @ @@ (e.c :> 0), !.late = @ @@ (e.c :> {}),
                   !.req = IF e.r \in Reqs(a) /\ a.req[e.r].st = "pend" /\ a.req[e.r].own = 0
                           THEN [@ EXCEPT ![e.r].own = e.c] ELSE @]
    [] e.e = "Opened" ->
         [b EXCEPT !.conn[e.c] = IF @ = "opening" THEN (IF e.ok = 1 THEN "open" ELSE "dead") ELSE @]
    [] e.e = "Start" ->
         [b EXCEPT !.hold[e.c] = e.r,
                   !.req[e.r].st = IF @ = "pend" THEN "run" ELSE IF @ = "tmoO" THEN "zomb" ELSE @]
    [] e.e = "Done" ->
         IF a.hold[e.c] = e.r
         THEN Rel([b EXCEPT !.req[e.r].st = IF @ = "zomb" THEN "done" ELSE IF @ = "run" THEN "resp" ELSE @], e.c)
         ELSE [b EXCEPT !.late[e.c] = @ \ {e.r}]
    [] e.e = "TimedOut" ->
         LET q == a.req[e.r] IN
         IF q.st = "pend" /\ q.own = 0 THEN [b EXCEPT !.req[e.r].st = "tmoW", !.stale = @ + 1]
         ELSE IF q.st = "pend" THEN [b EXCEPT !.req[e.r].st = "tmoO"]
         ELSE IF q.st = "run"
              THEN LET hs == Holder(a, e.r)
                       b1 == [b EXCEPT !.req[e.r].st = "tmoR"]
                   IN IF hs = {} THEN b1
                      ELSE LET c == CHOOSE x \in hs : TRUE
                           IN Rel([b1 EXCEPT !.late[c] = @ \cup {e.r}], c)
         ELSE b
    [] e.e = "Deliver" ->
         [b EXCEPT !.req[e.r].nd = @ + 1,
                   !.req[e.r].st = IF e.k = "maxw" THEN "maxw"
                                   ELSE IF e.k = "closed" /\ @ = "pend" THEN "closed"
                                   ELSE IF e.k \in {"ok", "err", "other"} THEN "done"
                                   ELSE @]
    [] e.e = "Die" -> [b EXCEPT !.conn[e.c] = IF @ \in {"opening", "open"} THEN "dead" ELSE @]
    [] e.e = "Closed" -> [b EXCEPT !.conn[e.c] = "closed"]
    [] e.e = "PoolClose" -> [b EXCEPT !.pclosed = TRUE]
    [] e.e = "PoolOpen" -> [b EXCEPT !.expc = FALSE]    \* from now on the pool may report Open again
    [] e.e \in {"Q", "Stop", "PState"} -> [b EXCEPT !.pclosed = @ \/ e.pst = "closed"]
    [] e.e = "Probe" -> b

\* guide-style interface on the variable `abs`
AInit(mn, mx, ql) == abs = AInit0(mn, mx, ql)
ECheck(e) == Chk(abs, e)
EUpd(e) == abs' = Upd(abs, e)
E(e) == ECheck(e) = "ok" /\ EUpd(e)
=============================================================================
