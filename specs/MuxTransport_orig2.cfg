SPECIFICATION Spec
CONSTANTS
  Reqs = {1, 2, 3}
  MaxTag = 5
  FixRelease = TRUE
  FixSent = FALSE
  MaxStray = 1
INVARIANT NoViolation
INVARIANT PoolSane
INVARIANT Bounded
INVARIANT ShutdownFailsAll
CHECK_DEADLOCK FALSE
