--------------------------- MODULE ThriftWireTrace ---------------------------
(* Batched validation of recorded (input, output) pairs of the real code   *)
(* against ThriftWireAbs (C14).  Same pattern as TimerAbsTrace.            *)
EXTENDS ThriftWireAbs, Json, IOUtils

Traces == ndJsonDeserialize(IOEnv.TRACE_FILE)

VARIABLES tid, l, verdict
tvars == <<tid, l, verdict>>

Ev == Traces[tid].ev

TInit == /\ tid \in 1..Len(Traces)
         /\ l = 1
         /\ verdict = "ok"
         /\ AInit

CheckOf(e) ==
  CASE e.e = "Call" -> CallCheck(e)
    [] e.e = "Reply" -> ReplyCheck(e)
    [] e.e = "Read" -> ReadCheck(e)
    [] e.e = "Write" -> WriteCheck(e)
    [] e.e = "Wire" -> WireCheck(e)
    [] OTHER -> "harness.unknownEvent"

TNext == /\ verdict = "ok"
         /\ l <= Len(Ev)
         /\ LET e == Ev[l]
                chk == CheckOf(e)
            IN IF chk = "ok"
               THEN Upd /\ l' = l + 1 /\ verdict' = "ok"
               ELSE verdict' = chk /\ l' = l /\ UNCHANGED avars
         /\ UNCHANGED tid

TSpec == TInit /\ [][TNext]_<<avars, tvars>>

Done == verdict # "ok" \/ l > Len(Ev)
Report == Done => PrintT(<<"V", tid, l - 1, verdict>>)
=============================================================================
