---------------------------- MODULE MuxWireTrace ----------------------------
(* Batched validation of recorded (input, bytes) pairs against MuxWire (C13). *)
(* One trace = a handful of independent records produced by the real code;    *)
(* every record is judged by the clauses of MuxWire; the first failing clause *)
(* is the verdict of the trace.                                               *)
EXTENDS MuxWire, Json, IOUtils

Traces == ndJsonDeserialize(IOEnv.TRACE_FILE)

VARIABLES tid, l, verdict
tvars == <<tid, l, verdict>>

Ev == Traces[tid].ev

TInit == /\ tid \in 1..Len(Traces)
         /\ l = 1
         /\ verdict = "ok"
         /\ AInit

CheckOf(e) ==
  CASE e.e = "Disp" -> DispCheck(e)
    [] e.e = "Disc" -> DiscCheck(e)
    [] e.e = "Ping" -> PingCheck(e)
    [] e.e = "Hdr"  -> HdrCheck(e)
    [] OTHER -> "harness.unknownEvent"

TNext == /\ verdict = "ok"
         /\ l <= Len(Ev)
         /\ LET e == Ev[l]
                chk == CheckOf(e)
            IN IF chk = "ok"
               THEN AUpd /\ l' = l + 1 /\ verdict' = "ok"
               ELSE verdict' = chk /\ l' = l /\ UNCHANGED avars
         /\ UNCHANGED tid

TSpec == TInit /\ [][TNext]_<<avars, tvars>>

Done == verdict # "ok" \/ l > Len(Ev)
Report == Done => PrintT(<<"V", tid, l - 1, verdict>>)
=============================================================================
