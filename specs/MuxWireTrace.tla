---------------------------- MODULE MuxWireTrace ----------------------------
(* Batched validation of recorded (input, bytes) pairs against MuxWire (C13). *)
(* One trace = a handful of independent records produced by the real code;    *)
(* every record is judged by the clauses of MuxWire; the first failing clause *)
(* is the verdict of the trace.                                               *)
(* Stream mode (MuxStreamAbs): a trace is the life of one connection of the   *)
(* real client stack -- dispatches supplied (Sup), byte chunks accepted by    *)
(* the connection (Bytes), Closed, End -- judged by the stream machine.       *)
(* Sup has k = "dispatch" (ctx, payload) or k = "discard" (payload of the     *)
(* call whose timeout is handed to the transport); cfg.supdisc = 1 iff the    *)
(* driver observes supplied discards.                                         *)
EXTENDS MuxStreamAbs, Json, IOUtils

Traces == ndJsonDeserialize(IOEnv.TRACE_FILE)

VARIABLES tid, l, verdict
tvars == <<tid, l, verdict>>

Ev == Traces[tid].ev

TInit == /\ tid \in 1..Len(Traces)
         /\ l = 1
         /\ verdict = "ok"
         /\ AInit
         /\ SInitS("supdisc" \in DOMAIN Traces[tid].cfg /\ Traces[tid].cfg.supdisc = 1)

CheckOf(e) ==
  CASE e.e = "Disp" -> DispCheck(e)
    [] e.e = "Disc" -> DiscCheck(e)
    [] e.e = "Ping" -> PingCheck(e)
    [] e.e = "Hdr"  -> HdrCheck(e)
    [] e.e = "Sup"    -> IF e.k = "discard" THEN SupDiscCheck(e.payload) ELSE SupCheck(e.ctx, e.payload)
    [] e.e = "Bytes"  -> BytesCheck(e.data)
    [] e.e = "Closed" -> ClosedCheck(e.mid)
    [] e.e = "End"    -> EndCheck
    [] OTHER -> "harness.unknownEvent"

UpdOf(e) ==
  CASE e.e = "Sup"    -> (IF e.k = "discard" THEN SupDiscUpd(e.payload) ELSE SupUpd(e.ctx, e.payload))
                         /\ UNCHANGED avars
    [] e.e = "Bytes"  -> BytesUpd(e.data) /\ UNCHANGED avars
    [] e.e = "Closed" -> ClosedUpd(e.mid) /\ UNCHANGED avars
    [] e.e = "End"    -> EndUpd /\ UNCHANGED avars
    [] OTHER -> AUpd /\ UNCHANGED svars          \* independent (input, bytes) records

TNext == /\ verdict = "ok"
         /\ l <= Len(Ev)
         /\ LET e == Ev[l]
                chk == CheckOf(e)
            IN IF chk = "ok"
               THEN UpdOf(e) /\ l' = l + 1 /\ verdict' = "ok"
               ELSE verdict' = chk /\ l' = l /\ UNCHANGED <<avars, svars>>
         /\ UNCHANGED tid

TSpec == TInit /\ [][TNext]_<<avars, svars, tvars>>

Done == verdict # "ok" \/ l > Len(Ev)
Report == Done => PrintT(<<"V", tid, l - 1, verdict>>)
=============================================================================
