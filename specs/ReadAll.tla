------------------------------- MODULE ReadAll -------------------------------
(***************************************************************************)
(* C14 (a) -- code-shaped model of the reads of a serial Thrift            *)
(* transaction: scales/thrift/sink.py _AsyncProcessTransaction             *)
(*     sz, = unpack('!i', self._socket.readAll(4))                         *)
(*     buf = BytesIO(self._socket.readAll(sz))                             *)
(* over the two readAll implementations                                    *)
(*   "varz": scales/varz.py VarzSocketWrapper.readAll                      *)
(*           (bytearray(sz); recv_into(view[have:], sz - have) until full; *)
(*            a read of 0 bytes raises EOFError; bytearray(sz) raises for  *)
(*            sz < 0)                                                      *)
(*   "raw":  scales/scales_socket.py ScalesSocket.readAll                  *)
(*           (recv(sz - have), buff += chunk until have >= sz; an empty    *)
(*            chunk raises EOFError; for sz < 0 the loop does not run and  *)
(*            b'' is returned)                                             *)
(*                                                                         *)
(* One action per code segment between two socket reads (the only places   *)
(* where the greenlet can yield).  The environment chooses, at every read, *)
(* how many of the requested bytes are delivered (1..min(requested,        *)
(* remaining)); when the peer's stream is exhausted the read returns 0     *)
(* bytes (EOF).  The peer's stream is any prefix of one or two frames      *)
(* (so EOF lands at every point), plus streams with a negative / a large   *)
(* size word.  Up to NTxn consecutive transactions share the connection;   *)
(* an error closes it.                                                     *)
(*                                                                         *)
(* The property-level reference (TBinaryWire!FrameAt) is embedded on       *)
(* ghost variables: `viol` records the first clause that fails.            *)
(* `chunks` is the history of (requested, delivered) pairs: every terminal *)
(* state is one complete chunking of one stream, printed by Emit and       *)
(* replayed on the real code by the harness (direction A).                 *)
(***************************************************************************)
EXTENDS TBinaryWire

CONSTANTS MaxLen,     \* longest peer stream
          NTxn,       \* transactions attempted per connection
          Variants    \* subset of {"varz", "raw"}

VARIABLES stream, variant,      \* chosen in Init, constant afterwards
          pos,                  \* bytes of the stream consumed by socket reads
          pc,                   \* "idle" | "hdr" | "body"
          need, have, buf,      \* readAll locals: sz, have, buff
          txn,                  \* transactions finished
          closed,               \* the transport closed the socket (after an error)
          outs,                 \* what each finished transaction handed upstream
          start,                \* ghost: stream offset at which the current transaction began
          chunks,               \* history: <<requested, delivered>> per socket read
          viol                  \* ghost: first failing clause

vars == <<stream, variant, pos, pc, need, have, buf, txn, closed, outs, start, chunks, viol>>

Lesser(a, b) == IF a < b THEN a ELSE b

\* ---------------------------------------------------------------- peer streams
Hdr(k) == <<0, 0, 0, k>>
Body(k, base) == [i \in 1..k |-> base + i]          \* distinct byte values
One(s1) == Hdr(s1) \o Body(s1, 16)
Two(s1, s2) == One(s1) \o Hdr(s2) \o Body(s2, 64)
PrefixesOf(f) == {SubSeq(f, 1, n) : n \in 0..Lesser(Len(f), MaxLen)}

Streams ==
  UNION {PrefixesOf(One(s1)) : s1 \in 0..(MaxLen - 4)}
  \cup UNION {PrefixesOf(Two(s1, s2)) : s1 \in 0..(MaxLen - 4), s2 \in 0..(MaxLen - 4)}
  \cup {<<255, 255, 255, 255>>, <<255, 255, 255, 254, 9>>}     \* negative size word
  \cup {<<0, 0, 1, 0, 1, 2>>, <<1, 0, 0, 0, 3>>}               \* 256 / 2^24: byte order matters

Init ==
  /\ stream \in {s \in Streams : Len(s) <= MaxLen}
  /\ variant \in Variants
  /\ pos = 0 /\ pc = "idle" /\ need = 0 /\ have = 0 /\ buf = <<>>
  /\ txn = 0 /\ closed = FALSE /\ outs = <<>> /\ start = 0 /\ chunks = <<>>
  /\ viol = "ok"

\* ---------------------------------------------------------------- ghost oracle
Frm(b) == [k |-> "frame", b |-> b]
Err == [k |-> "error", b |-> <<>>]

\* Evaluated when a transaction hands `o` upstream.
OutClause(o) ==
  LET fr == FrameAt(stream, start) IN
  IF fr.kind = "frame"
    THEN IF o = Frm(fr.body) THEN "ok"
         ELSE IF o.k = "frame" THEN "C14.nextBytes" ELSE "C14.chunkIndependent"
  ELSE IF fr.kind = "truncated"
    THEN IF o.k = "error" THEN "ok" ELSE "C14.nextBytes"
  ELSE "ok"            \* negative size word: nothing prescribed

Finish(o) ==
  /\ outs' = Append(outs, o)
  /\ viol' = IF viol = "ok" THEN OutClause(o) ELSE viol
  /\ txn' = txn + 1
  /\ pc' = "idle" /\ need' = 0 /\ have' = 0 /\ buf' = <<>>
  /\ closed' = (o.k = "error")

\* ---------------------------------------------------------------- code segments
\* _AsyncProcessTransaction up to the first socket read: readAll(4) starts.
Begin ==
  /\ pc = "idle" /\ ~closed /\ txn < NTxn
  /\ pc' = "hdr" /\ need' = 4 /\ have' = 0 /\ buf' = <<>>
  /\ start' = pos
  /\ UNCHANGED <<stream, variant, pos, txn, closed, outs, chunks, viol>>

\* One socket read that delivers k >= 1 bytes, and the code up to the next read.
Recv(k) ==
  /\ pc \in {"hdr", "body"}
  /\ k \in 1..Lesser(need - have, Len(stream) - pos)
  /\ LET nbuf == buf \o SubSeq(stream, pos + 1, pos + k)
         nhave == have + k
     IN /\ pos' = pos + k
        /\ chunks' = Append(chunks, <<need - have, k>>)
        /\ IF nhave < need
             THEN \* loop again: while have < sz
                  /\ have' = nhave /\ buf' = nbuf
                  /\ UNCHANGED <<pc, need, txn, closed, outs, viol>>
           ELSE IF pc = "hdr"
             THEN LET sz == RdI32(nbuf, 0) IN           \* unpack('!i', ...)
                  IF sz > 0
                    THEN /\ pc' = "body" /\ need' = sz /\ have' = 0 /\ buf' = <<>>
                         /\ UNCHANGED <<txn, closed, outs, viol>>
                  ELSE IF sz = 0
                    THEN Finish(Frm(<<>>))              \* readAll(0): the loop does not run
                  ELSE IF variant = "varz"
                    THEN Finish(Err)                    \* bytearray(sz) raises ValueError
                  ELSE Finish(Frm(<<>>))                \* raw: while 0 < sz is false, b''
           ELSE Finish(Frm(nbuf))
  /\ UNCHANGED <<stream, variant, start>>

\* One socket read that finds the peer's stream exhausted: 0 bytes, EOFError,
\* the transaction's `except Exception` closes the transport and posts the error.
RecvEof ==
  /\ pc \in {"hdr", "body"}
  /\ pos = Len(stream)
  /\ chunks' = Append(chunks, <<need - have, 0>>)
  /\ Finish(Err)
  /\ UNCHANGED <<stream, variant, pos, start>>

Next == Begin \/ (\E k \in 1..MaxLen : Recv(k)) \/ RecvEof

Spec == Init /\ [][Next]_vars

\* ---------------------------------------------------------------- invariants
NoViolation == viol = "ok"

Structural ==
  /\ 0 <= pos /\ pos <= Len(stream)
  /\ have <= need \/ need < 0
  /\ Len(buf) = have
  /\ pc = "idle" => have = 0 /\ buf = <<>>
  /\ Len(outs) = txn /\ txn <= NTxn

\* The outcome is a function of the stream only: at the end of a run the list
\* of outcomes equals the one computed from the stream by the reference function.
RECURSIVE RefOuts(_, _)
RefOuts(p, n) ==
  IF n = 0 THEN <<>>
  ELSE LET fr == FrameAt(stream, p) IN
       IF fr.kind = "frame" THEN <<Frm(fr.body)>> \o RefOuts(fr.next, n - 1)
       ELSE IF fr.kind = "negative" /\ variant = "raw" THEN <<Frm(<<>>)>> \o RefOuts(fr.next, n - 1)
       ELSE <<Err>>

Terminal == pc = "idle" /\ (closed \/ txn = NTxn)
Determined == Terminal => outs = RefOuts(0, NTxn)

\* used by the enumeration configs: one line per complete chunking
Emit == Terminal => PrintT(<<"B", variant, stream, chunks, outs>>)

\* vacuity guards, checked with -coverage: every action is taken (runner).
=============================================================================
