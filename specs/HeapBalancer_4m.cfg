SPECIFICATION Spec
CONSTANTS
  MaxNodes = 4
  Eps = {1,2,3}
  InitN = 3
  MaxLoad = 2
  P = 100
  Repaired = TRUE
  Faults = FALSE
  Membership = TRUE
  TrackLate = TRUE
  Noise = TRUE
  Aperture = FALSE
  MinSize = 1
  StaleSize = FALSE
  Light = FALSE
INVARIANT NoViolation
INVARIANT HeapOrder
INVARIANT Structural
CHECK_DEADLOCK FALSE
