SPECIFICATION Spec
CONSTANTS
  Holders = {1, 2, 3}
  Keys = {1, 2}
  MaxLen = 10
  MaxSinks = 5
INVARIANT NoViolation
INVARIANT Structural
CHECK_DEADLOCK FALSE
