---------------------------- MODULE ResurrectAbs ----------------------------
(***************************************************************************)
(* C09 -- one endpoint behind a ResurrectorSink, as seen by its callers and *)
(* by the (simulated) endpoint.  Property-level oracle.                    *)
(* Events (virtual time t in ms):                                          *)
(*   Reach(up)          the endpoint became reachable / unreachable        *)
(*   Down               the resurrector started reporting Closed           *)
(*   Up                 it stopped reporting Closed (resurrected)          *)
(*   Attempt            a (re)connect attempt started at the endpoint      *)
(*   AttemptEnd(ok)     that attempt ended                                 *)
(*   Req(r, st, busy)   request r issued; st = the resurrector's reported  *)
(*                      state (4 = Closed: known down); busy = a connect   *)
(*                      attempt is in progress at this instant             *)
(*   Deliver(r, kind)   r completed: value | failfast | error | timeout    *)
(*   SrvRecv(r)         r arrived at the endpoint                          *)
(*   Recover(tau)       the driver asserts: reachable since tau, requests  *)
(*                      issued at least every `spacing` ms ever since, and *)
(*                      now >= tau + max + slack                           *)
(*   ClientClosed       the owner closed the client                        *)
(* cfg: initial, max (ms) of the back-off, slack (ms) = connect latency +  *)
(* request spacing + scheduling allowance.                                 *)
(* Domain of C09.backoff: initial > 1 s, exponent > 1 (includes defaults). *)
(***************************************************************************)
EXTENDS Integers, Sequences, FiniteSets, TLC, IOUtils

Tol == 2   \* ms: float noise of sleep()/time() arithmetic on the virtual clock

VARIABLES rclock, rinit, rmax, rslack,
          down,        \* the client has observed the connection failing (failed attempt, or the
                       \* resurrector reports Closed) and no attempt has succeeded since
          firm,        \* ... and a quiescent point has passed since (the fault notification is delivered)
          downAt,      \* time the current outage began; -1 none
          lastEnd,     \* time the previous attempt ended (or the time it went down); -1 none
          prevGap,     \* previous back-off gap; -1 none
          attDown,     \* the attempt in progress was started while down (a reconnect attempt)
          pend,        \* r -> [at, st, busy]   issued, not yet delivered
          recv,        \* set of times at which requests arrived at the endpoint
          closedAt,    \* -1 or time the client was closed
          stragAt      \* -1 or the latest time at which a request issued before the outage was known
                       \* (it was already past the resurrector) completed during the outage
rvars == <<rclock, rinit, rmax, rslack, down, firm, downAt, lastEnd, prevGap, attDown, pend, recv, closedAt, stragAt>>

RInit(t0, i, m, s) ==
  /\ rclock = t0 /\ rinit = i /\ rmax = m /\ rslack = s /\ down = FALSE /\ firm = FALSE /\ downAt = -1 /\ lastEnd = -1
  /\ prevGap = -1 /\ attDown = FALSE /\ pend = <<>> /\ recv = {} /\ closedAt = -1 /\ stragAt = -1

Mono(t) == IF t >= rclock THEN "ok" ELSE "harness.clockMonotone"
Same == UNCHANGED <<rinit, rmax, rslack>>
SameA == UNCHANGED <<rinit, rmax, rslack, attDown>>

ReachCheck(up, t) == Mono(t)
ReachUpd(up, t) == rclock' = t /\ SameA /\ UNCHANGED <<down, firm, downAt, lastEnd, prevGap, pend, recv, closedAt, stragAt>>

DownCheck(t) == Mono(t)
DownUpd(t) == /\ rclock' = t /\ SameA /\ down' = TRUE /\ lastEnd' = (IF down THEN lastEnd ELSE t)
              /\ downAt' = (IF down THEN downAt ELSE t)
              /\ prevGap' = (IF down THEN prevGap ELSE -1) /\ UNCHANGED firm
              /\ UNCHANGED <<pend, recv, closedAt, stragAt>>
UpCheck(t) == Mono(t)
UpUpd(t) == /\ rclock' = t /\ SameA /\ down' = FALSE /\ firm' = FALSE /\ downAt' = -1 /\ lastEnd' = -1 /\ prevGap' = -1
            /\ UNCHANGED <<pend, recv, closedAt, stragAt>>

\* An attempt is one of the resurrector's retries iff it starts during an outage at a later time
\* than the outage began; connects started in the very instant the connection died belong to
\* requests that were already past the resurrector.
\* A request that was issued before the outage was known is already past the resurrector; the serial
\* transport re-connects on its behalf when it times out (at its deadline, possibly much later than the
\* outage began).  Such a connect is not one of the resurrector's retries.
Straggler(t) == \/ \E r \in DOMAIN pend : pend[r].at <= downAt
                \/ stragAt = t
StragglerC(t) == \/ \E r \in DOMAIN pend : pend[r].at <= closedAt
                 \/ stragAt = t
Retry(t) == down /\ lastEnd >= 0 /\ downAt >= 0 /\ t > downAt /\ ~Straggler(t)

\* a reconnect attempt starts: back-off discipline, and nothing after the client was closed
AttemptCheck(t) ==
  IF Mono(t) # "ok" THEN Mono(t)
  \* a call that was in flight when the client was closed may still time out inside the serial transport, which
  \* then re-opens its socket once on that call's behalf (the pool closes the connection when it is handed back):
  \* that is not one of the retries the statement speaks of
  ELSE IF closedAt >= 0 /\ t > closedAt /\ ~StragglerC(t) THEN "C09.quietAfterClose"
  \* only attempts made after the outage is firm are the resurrector's retries; connects started in
  \* the instant the connection died belong to requests that were already past the resurrector
  ELSE IF ~Retry(t) THEN "ok"
  ELSE LET gap == t - lastEnd IN
       IF gap < rinit - Tol THEN "C09.backoff"                     \* never sooner than the initial interval
       ELSE IF gap > rmax + Tol THEN "C09.backoff"                 \* capped at the maximum
       ELSE IF prevGap >= 0 /\ gap < prevGap - Tol THEN "C09.backoff"   \* delays do not shrink
       ELSE IF prevGap >= 0 /\ prevGap < rmax - Tol /\ gap <= prevGap + Tol THEN "C09.backoff"  \* and grow below the cap
       ELSE "ok"
AttemptUpd(t) ==
  /\ rclock' = t /\ Same /\ attDown' = Retry(t)
  /\ prevGap' = IF Retry(t) THEN t - lastEnd ELSE prevGap
  /\ UNCHANGED <<down, firm, downAt, lastEnd, pend, recv, closedAt, stragAt>>

AttemptEndCheck(ok, t) == Mono(t)
\* a failed attempt is an observed failure; a successful one ends the outage
AttemptEndUpd(ok, t) ==
  /\ rclock' = t /\ SameA
  /\ down' = ~ok
  /\ downAt' = IF ok THEN -1 ELSE IF down THEN downAt ELSE t
  /\ firm' = IF ok THEN FALSE ELSE firm
  /\ lastEnd' = IF ok THEN -1 ELSE IF (down /\ attDown) \/ ~down THEN t ELSE lastEnd
  /\ prevGap' = IF ok \/ ~down THEN -1 ELSE prevGap
  /\ UNCHANGED <<pend, recv, closedAt, stragAt>>

ReqCheck(r, st, busy, t) ==
  IF Mono(t) # "ok" THEN Mono(t) ELSE IF r \in DOMAIN pend THEN "harness.freshReq" ELSE "ok"
ReqUpd(r, st, busy, t) ==
  /\ rclock' = t /\ SameA /\ pend' = pend @@ (r :> [at |-> t, st |-> IF firm THEN 4 ELSE 0, busy |-> busy])
  /\ UNCHANGED <<down, firm, downAt, lastEnd, prevGap, recv, closedAt, stragAt>>

\* a request issued while the endpoint is known down (and no attempt is in progress that could
\* flip the state within the instant) fails in the same instant with the fail-fast error
DeliverCheck(r, kind, t) ==
  IF Mono(t) # "ok" THEN Mono(t)
  ELSE IF r \notin DOMAIN pend THEN "ok"
  ELSE IF pend[r].st = 4 /\ ~pend[r].busy /\ closedAt < 0 /\ (t # pend[r].at \/ kind # "failfast") THEN "C09.failFast"
  ELSE "ok"
DeliverUpd(r, kind, t) ==
  /\ rclock' = t /\ SameA /\ pend' = [x \in DOMAIN pend \ {r} |-> pend[x]]
  /\ stragAt' = IF r \in DOMAIN pend /\ ((down /\ pend[r].at <= downAt) \/ (closedAt >= 0 /\ pend[r].at <= closedAt)) THEN t ELSE stragAt
  /\ UNCHANGED <<down, firm, downAt, lastEnd, prevGap, recv, closedAt>>

SrvRecvCheck(r, t) == Mono(t)
SrvRecvUpd(r, t) == /\ rclock' = t /\ SameA /\ recv' = recv \cup {t}
                    /\ UNCHANGED <<down, firm, downAt, lastEnd, prevGap, pend, closedAt, stragAt>>

\* requests issued while known down must not still be waiting (they fail at once)
QuietCheck(t) ==
  IF Mono(t) # "ok" THEN Mono(t)
  ELSE IF closedAt < 0 /\ \E r \in DOMAIN pend : pend[r].st = 4 /\ ~pend[r].busy /\ pend[r].at < t THEN "C09.failFast"
  ELSE "ok"
QuietUpd(t) == rclock' = t /\ SameA /\ firm' = down /\ UNCHANGED <<down, downAt, lastEnd, prevGap, pend, recv, closedAt, stragAt>>

\* reachable since tau with steady traffic: some request reached the endpoint within the bound
RecoverCheck(tau, t) ==
  IF Mono(t) # "ok" THEN Mono(t)
  ELSE IF t < tau + rmax + rslack THEN "harness.recoverTooEarly"
  ELSE IF ~(\E x \in recv : x >= tau /\ x <= tau + rmax + rslack) THEN "C09.recovers"
  ELSE "ok"
RecoverUpd(tau, t) == QuietUpd(t)

ClientClosedCheck(t) == Mono(t)
ClientClosedUpd(t) == /\ rclock' = t /\ SameA /\ closedAt' = t
                      /\ UNCHANGED <<down, firm, downAt, lastEnd, prevGap, pend, recv, stragAt>>
=============================================================================
