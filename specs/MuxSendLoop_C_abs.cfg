SPECIFICATION Spec
CONSTANTS
  Calls = {1, 2}
  HasDl = {1}
  MaxPings = 1
  Rooms = {0, 5, 20, 60}
  Drains = {3, 9, 60}
  Cap = 60
  Lowat = 1
  Variant = "pingDirect"
INVARIANT AbsAccepts
CHECK_DEADLOCK FALSE
