SPECIFICATION Spec
CONSTANTS
  MaxNodes = 4
  Eps = {1,2,3,4}
  InitN = 4
  MaxLoad = 1
  P = 100
  Repaired = TRUE
  Faults = TRUE
  Membership = FALSE
  TrackLate = FALSE
  Noise = FALSE
  Aperture = TRUE
  MinSize = 2
  StaleSize = FALSE
  Light = FALSE
INVARIANT NoViolation
INVARIANT HeapOrder
INVARIANT Structural
CHECK_DEADLOCK FALSE
