SPECIFICATION Spec
CONSTANTS
  MaxNodes = 5
  Eps = {1,2,3,4,5}
  InitN = 5
  MaxLoad = 2
  P = 100
  Repaired = FALSE
  Faults = FALSE
  Membership = FALSE
  TrackLate = FALSE
  Noise = TRUE
  Aperture = FALSE
  MinSize = 1
  StaleSize = FALSE
  Light = TRUE
INVARIANT NoViolation
CHECK_DEADLOCK FALSE
