---------------------------- MODULE MuxWireCheck ----------------------------
(***************************************************************************)
(* C13 -- bounded exhaustive self-consistency of the MuxWire reference.     *)
(*                                                                         *)
(* A tiny state machine enumerates a bounded message domain (one message   *)
(* per state, so the search is spread over TLC's workers):                  *)
(*   - Tdispatch: tags at the byte boundaries, contexts of <= 2 entries    *)
(*     (distinct keys) over an alphabet with 1-, 2-, 3- and 4-byte code    *)
(*     points and the empty string, text and deadline values, payloads;    *)
(*   - Tdiscarded / Tping;                                                 *)
(*   - headers: every signed type byte x boundary tags of each 65536-tag   *)
(*     block, and for the protocol's own types every tag of the block      *)
(*     (HiBytes = 0..255 sweeps all 2^24 tags).                            *)
(* Invariants:                                                             *)
(*   RoundTrip     Decode(Encode(m)) = m, ReadHeader(Header(t, g)) = <<t,g>>*)
(*   ChecksAccept  the property-level Check operators accept the reference *)
(*                 encoding of every message in the domain, in either      *)
(*                 context order (no false alarm on the domain)            *)
(*   ImplAgrees    the code-shaped writer/reader of MuxWire agrees    *)
(*                 with the reference: holds for Variant = "fixed", and    *)
(*                 TLC returns the design-level counterexamples (a non-    *)
(*                 ASCII context key; reply type 127) for Variant = "asis". *)
(***************************************************************************)
EXTENDS MuxWire

CONSTANTS Tags,       \* tags used for full frames
          KeyLen,     \* max length (code points) of context keys
          ValLen,     \* max length of context text values
          HiBytes,    \* top tag bytes swept by header states
          Variant     \* "fixed" | "asis"  (code-shaped definitions)

BoundaryTags == {0, 1, 2, 255, 256, 65535, 65536, 16777214, 16777215}
SomeTags     == {0, 256, 16777215}
FiveTags     == {0, 255, 256, 65536, 16777215}
HiQuick      == {0, 1, 127, 128, 255}
HiAll        == 0..255
NoTags       == {}
SweepTypes   == ReplyTypes \cup {TdispatchT, TpingT, TdiscardedT}

Alphabet == {65, 233, 8364, 128512}         \* 'A', e-acute (2 bytes), euro sign (3), emoji (4)
Z4 == <<0, 0, 0, 0>>
DeadlineLimbs == {Z4, <<65535, 65535, 65535, 65535>>, <<32768, 0, 1, 65534>>}
Payloads == {<<>>, <<0>>, <<128, 1, 0, 255>>}

TextEntries == [k : BoundedSeq(Alphabet, KeyLen), vt : {"s"}, v : BoundedSeq(Alphabet, ValLen), ts : {Z4}, to : {Z4}]
DlEntries   == [k : BoundedSeq(Alphabet, KeyLen), vt : {"d"}, v : {<<>>}, ts : DeadlineLimbs, to : {Z4, <<0, 0, 65535, 1>>}]
Entries     == TextEntries \cup DlEntries

VARIABLE m
vars == <<m, accepted>>

Init ==
  /\ accepted = 0
  /\ \/ m \in [kind : {"disp"}, tag : Tags, ctx : {<<>>} \cup {<<x>> : x \in Entries}, payload : Payloads]
     \/ m \in [kind : {"disc"}, tag : {0, 16777215}, which : Tags, why : BoundedSeq(Alphabet, 2)]
     \/ m \in [kind : {"ping"}, tag : Tags]
     \/ m \in [kind : {"hdr"}, type : -128..127, hi : HiBytes]       \* boundary tags of the block
     \/ m \in [kind : {"seed"}, type : SweepTypes, hi : HiBytes]     \* becomes a full 65536-tag sweep

Next ==
  /\ \/ /\ m.kind = "disp" /\ Len(m.ctx) = 1       \* second context entry (distinct key)
        /\ \E x \in Entries : x.k # m.ctx[1].k /\ m' = [m EXCEPT !.ctx = Append(@, x)]
     \/ /\ m.kind = "seed"                           \* (a step, so that the sweep runs on a worker)
        /\ m' = [m EXCEPT !.kind = "sweep"]
  /\ UNCHANGED accepted

Spec == Init /\ [][Next]_vars

\* ---------------------------------------------------------------- invariants
DispRoundTrip ==
  LET f == TdispatchFrame(m.tag, m.ctx, m.payload)
      d == DecFrame(f)
      b == DecDispatch(d.body)
  IN /\ d.ok /\ d.type = TdispatchT /\ d.tag = m.tag
     /\ b.ok /\ Len(b.ctx) = Len(m.ctx)
     /\ \A i \in DOMAIN m.ctx : EntryDecodesTo(b.ctx[i], m.ctx[i])
     /\ b.dst = <<>> /\ b.dtab = <<>> /\ b.payload = m.payload

DiscRoundTrip ==
  LET f == TdiscardedFrame(m.tag, m.which, m.why)
      d == DecFrame(f)
  IN /\ d.ok /\ d.type = TdiscardedT /\ d.tag = m.tag
     /\ RdU24(d.body, 1) = m.which
     /\ Utf8Decode(SubSeq(d.body, 4, Len(d.body))) = [ok |-> TRUE, text |-> m.why]

LoBoundary == {0, 1, 2, 255, 256, 65534, 65535}
HdrRoundTrip(los) ==
  \A lo \in los :
    LET tag == m.hi * 65536 + lo
    IN ReadHeader(Header(m.type, tag)) = <<m.type, tag>>

RoundTrip ==
  CASE m.kind = "disp" -> DispRoundTrip
    [] m.kind = "disc" -> DiscRoundTrip
    [] m.kind = "ping" -> LET d == DecFrame(TpingFrame(m.tag)) IN d.ok /\ d.type = TpingT /\ d.tag = m.tag /\ d.body = <<>>
    [] m.kind = "hdr"  -> HdrRoundTrip(LoBoundary)
    [] m.kind = "sweep" -> HdrRoundTrip(0..65535)
    [] OTHER -> TRUE

Swap(ctx) == IF Len(ctx) = 2 THEN <<ctx[2], ctx[1]>> ELSE ctx

ChecksAccept ==
  CASE m.kind = "disp" ->
         /\ DispCheck([tag |-> m.tag, ctx |-> m.ctx, payload |-> m.payload, raised |-> "none",
                       frame |-> TdispatchFrame(m.tag, m.ctx, m.payload)]) = "ok"
         /\ DispCheck([tag |-> m.tag, ctx |-> m.ctx, payload |-> m.payload, raised |-> "none",
                       frame |-> TdispatchFrame(m.tag, Swap(m.ctx), m.payload)]) = "ok"
    [] m.kind = "disc" ->
         DiscCheck([tag |-> m.tag, which |-> m.which, why |-> m.why, whyKnown |-> TRUE, raised |-> "none",
                    frame |-> TdiscardedFrame(m.tag, m.which, m.why)]) = "ok"
    [] m.kind = "ping" -> PingCheck([tag |-> m.tag, raised |-> "none", frame |-> TpingFrame(m.tag)]) = "ok"
    [] m.kind = "hdr" ->
         \A tag \in {m.hi * 65536, m.hi * 65536 + 255, m.hi * 65536 + 65535} :
           HdrCheck([type |-> m.type, tag |-> tag, len |-> 7, raised |-> "none",
                     bytes |-> I32(11) \o Header(m.type, tag), read |-> TRUE,
                     rtype |-> m.type, rtag |-> tag, rraised |-> "none"]) = "ok"
    [] OTHER -> TRUE

\* The clauses reject single-byte corruptions of a reference frame (binding of the oracle).
ChecksRejectCorruption ==
  m.kind = "disp" =>
    LET f == TdispatchFrame(m.tag, m.ctx, m.payload)
    IN \A p \in DOMAIN f :
         DispCheck([tag |-> m.tag, ctx |-> m.ctx, payload |-> m.payload, raised |-> "none",
                    frame |-> [f EXCEPT ![p] = (f[p] + 1) % 256]]) # "ok"

ImplAgrees ==
  CASE m.kind = "disp" -> ImplDispatchFrame(m.tag, m.ctx, m.payload, Variant) = TdispatchFrame(m.tag, m.ctx, m.payload)
    [] m.kind = "disc" -> ImplDiscardFrame(m.tag, m.which, m.why) = TdiscardedFrame(m.tag, m.which, m.why)
    [] m.kind = "ping" -> ImplBuildHeader(m.tag, TpingT, 0) = TpingFrame(m.tag)
    [] m.kind = "hdr"  -> \A lo \in LoBoundary :
                            LET tag == m.hi * 65536 + lo IN
                            /\ ImplBuildHeader(tag, m.type, 5) = I32(9) \o Header(m.type, tag)
                            /\ m.type \in ReplyTypes => ImplReadHeader(Header(m.type, tag), Variant) = <<m.type, tag>>
    [] OTHER -> TRUE

ASSUME CrcSelfTest
=============================================================================
