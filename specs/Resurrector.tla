----------------------------- MODULE Resurrector -----------------------------
(***************************************************************************)
(* Code-shaped model of scales/resurrector.py ResurrectorSink (C09) with    *)
(* the fault-signal chain below it reduced to a counter of deferred         *)
(* notifications (Observable.Set spawns its notification).                  *)
(*   nextSink   "none" | "live" | "dead"   self.next_sink and its health     *)
(*   downOn     self._down_on is set                                       *)
(*   rpc        "none" | "sleeping" | "opening"    the _TryResurrect greenlet*)
(*   level      index into the table of wait intervals W                   *)
(*   wakeAt     when the sleeping greenlet resumes                         *)
(*   inflight   fault notifications spawned but not yet delivered          *)
(* Time is in whole seconds.  W is initial, initial^e, ... capped at max.   *)
(* FixClose = TRUE models a Close() after which a late fault notification   *)
(* does not start a new retry loop.                                        *)
(***************************************************************************)
EXTENDS Integers, Sequences, TLC

CONSTANTS W, MaxT, FixClose

W3 == <<2, 3, 5>>
W4 == <<2, 4, 8>>   \* initial 2 s, exponent 2, cap 8 s

VARIABLES now, reach, nextSink, downOn, rpc, level, wakeAt, inflight, closed,
          lastEnd, prevGap, viol, subscribed

vars == <<now, reach, nextSink, downOn, rpc, level, wakeAt, inflight, closed, lastEnd, prevGap, viol, subscribed>>

Init ==
  /\ now = 0 /\ reach = TRUE /\ nextSink = "live" /\ downOn = FALSE /\ rpc = "none" /\ level = 1
  /\ wakeAt = -1 /\ inflight = 0 /\ closed = FALSE /\ lastEnd = -1 /\ prevGap = -1 /\ viol = "ok"
  /\ subscribed = TRUE

Note(c) == viol' = IF viol = "ok" THEN c ELSE viol

\* ---- environment --------------------------------------------------------------------
Unreach == /\ reach /\ reach' = FALSE
           /\ IF nextSink = "live" /\ subscribed
              THEN nextSink' = "dead" /\ inflight' = inflight + 1     \* transport faults, signal spawned
              ELSE UNCHANGED <<nextSink, inflight>>
           /\ UNCHANGED <<now, downOn, rpc, level, wakeAt, closed, lastEnd, prevGap, viol, subscribed>>
Reach == /\ ~reach /\ reach' = TRUE
         /\ UNCHANGED <<now, nextSink, downOn, rpc, level, wakeAt, inflight, closed, lastEnd, prevGap, viol, subscribed>>

\* ---- _OnSinkFaulted (deferred) ------------------------------------------------------------
DeliverFault ==
  /\ inflight > 0 /\ inflight' = inflight - 1
  /\ IF ~downOn /\ ~(FixClose /\ closed)
     THEN /\ downOn' = TRUE /\ nextSink' = "none" /\ subscribed' = FALSE
          /\ rpc' = "sleeping" /\ level' = 1 /\ wakeAt' = now + W[1]
          /\ lastEnd' = now /\ prevGap' = -1
     ELSE UNCHANGED <<downOn, nextSink, subscribed, rpc, level, wakeAt, lastEnd, prevGap>>
  /\ UNCHANGED <<now, reach, closed, viol>>

\* ---- _TryResurrect ---------------------------------------------------------------------
\* sleep(wait) is over: create a sink and try to open it (an attempt starts)
RetryWake ==
  /\ rpc = "sleeping" /\ now >= wakeAt
  /\ rpc' = "opening"
  /\ LET gap == now - lastEnd IN
     /\ Note(IF closed THEN "C09.quietAfterClose"
             ELSE IF gap < W[1] \/ gap > W[Len(W)] THEN "C09.backoff"
             ELSE IF prevGap >= 0 /\ gap < prevGap THEN "C09.backoff"
             ELSE IF prevGap >= 0 /\ prevGap < W[Len(W)] /\ gap <= prevGap THEN "C09.backoff"
             ELSE "ok")
     /\ prevGap' = gap
  /\ UNCHANGED <<now, reach, nextSink, downOn, level, wakeAt, inflight, closed, lastEnd, subscribed>>

AttemptDone ==
  /\ rpc = "opening"
  /\ IF reach
     THEN /\ nextSink' = "live" /\ subscribed' = TRUE /\ downOn' = FALSE /\ rpc' = "none"
          /\ UNCHANGED <<level, wakeAt>> /\ lastEnd' = -1
     ELSE /\ level' = IF level < Len(W) THEN level + 1 ELSE level
          /\ rpc' = "sleeping" /\ wakeAt' = now + W[IF level < Len(W) THEN level + 1 ELSE level]
          /\ lastEnd' = now
          /\ UNCHANGED <<nextSink, subscribed, downOn>>
  /\ UNCHANGED <<now, reach, inflight, closed, prevGap, viol>>

\* ---- requests: fail fast while down, otherwise forwarded ---------------------------------
Request ==
  /\ ~closed
  /\ Note(IF downOn /\ nextSink # "none" THEN "C09.failFast" ELSE "ok")
  /\ UNCHANGED <<now, reach, nextSink, downOn, rpc, level, wakeAt, inflight, closed, lastEnd, prevGap, subscribed>>

\* ---- owner Close(): kill the retry greenlet, clear _down_on, close the sink -------------------
OwnerClose ==
  /\ ~closed /\ closed' = TRUE
  /\ rpc' = "none" /\ downOn' = FALSE /\ wakeAt' = -1
  /\ subscribed' = FALSE
  /\ UNCHANGED <<now, reach, nextSink, level, inflight, lastEnd, prevGap, viol>>

Tick ==
  /\ now < MaxT
  /\ inflight = 0 /\ rpc # "opening"
  /\ ~(rpc = "sleeping" /\ wakeAt <= now)
  /\ now' = now + 1
  /\ UNCHANGED <<reach, nextSink, downOn, rpc, level, wakeAt, inflight, closed, lastEnd, prevGap, viol, subscribed>>

Next == Unreach \/ Reach \/ DeliverFault \/ RetryWake \/ AttemptDone \/ Request \/ OwnerClose \/ Tick
Spec == Init /\ [][Next]_vars

NoViolation == viol = "ok"
\* down means detached, with a retry loop running (unless closed)
Structural == /\ downOn => (nextSink = "none" /\ rpc # "none")
              /\ closed => rpc = "none" \/ ~FixClose
\* recovery: once reachable, the next wake-up of the retry loop brings the endpoint back
RecoversAtWake == (rpc = "sleeping" /\ reach) => wakeAt <= now + W[Len(W)]
=============================================================================
