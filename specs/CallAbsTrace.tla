---------------------------- MODULE CallAbsTrace ----------------------------
(* Batched validation of full-stack implementation traces against CallAbs. *)
EXTENDS CallAbs, Json

Traces == ndJsonDeserialize(IOEnv.TRACE_FILE)

VARIABLES tid, l, verdict
tvars == <<tid, l, verdict>>
Ev == Traces[tid].ev

TInit == /\ tid \in 1..Len(Traces) /\ l = 1 /\ verdict = "ok"
         /\ CInit(Traces[tid].cfg.t0)

CheckOf(e) ==
  CASE e.e = "Issue" -> IssueCheck(e.c, e.T, e.t)
    [] e.e = "Done" -> DoneCheck(e.c, e.kind, e.ok = 1, e.t)
    [] e.e = "Changed" -> ChangedCheck(e.c, e.t)
    [] e.e = "SrvRecv" -> SrvRecvCheck(e.conn, e.c, e.tag, e.argOk = 1, e.methodOk = 1, e.t)
    [] e.e = "Wire" -> WireCheck(e.conn, e.c, e.tag, e.t)
    [] e.e = "Discard" -> DiscardCheck(e.conn, e.tag, e.t)
    [] e.e = "ConnClosed" -> ConnClosedCheck(e.conn, e.t)
    [] e.e = "Quiet" -> QuietCheck(e.t)
    [] e.e = "End" -> EndCheck(e.t)
    [] OTHER -> "harness.unknownEvent"

UpdOf(e) ==
  CASE e.e = "Issue" -> IssueUpd(e.c, e.T, e.t)
    [] e.e = "Done" -> DoneUpd(e.c, e.kind, e.ok = 1, e.t)
    [] e.e = "Changed" -> ChangedUpd(e.c, e.t)
    [] e.e = "SrvRecv" -> SrvRecvUpd(e.conn, e.c, e.tag, e.argOk = 1, e.methodOk = 1, e.t)
    [] e.e = "Wire" -> WireUpd(e.conn, e.c, e.tag, e.t)
    [] e.e = "Discard" -> DiscardUpd(e.conn, e.tag, e.t)
    [] e.e = "ConnClosed" -> ConnClosedUpd(e.conn, e.t)
    [] e.e = "Quiet" -> QuietUpd(e.t)
    [] e.e = "End" -> EndUpd(e.t)

TNext == /\ verdict = "ok" /\ l <= Len(Ev)
         /\ LET e == Ev[l]
                chk == CheckOf(e)
            IN IF chk = "ok" THEN UpdOf(e) /\ l' = l + 1 /\ verdict' = "ok"
               ELSE verdict' = chk /\ l' = l /\ UNCHANGED cvars
         /\ UNCHANGED tid

TSpec == TInit /\ [][TNext]_<<cvars, tvars>>
Done_ == verdict # "ok" \/ l > Len(Ev)
Report == Done_ => PrintT(<<"V", tid, l - 1, verdict>>)
=============================================================================
