SPECIFICATION Spec
CONSTANTS
  Calls = {1, 2}
  HasDl = {1}
  MaxPings = 2
  Rooms = {0, 1, 5, 14, 20, 60}
  Drains = {1, 3, 9, 60}
  Cap = 60
  Lowat = 1
  Variant = "asis"
INVARIANT TypeOK
INVARIANT WholeFramesInOrder
INVARIANT AbsAccepts
CHECK_DEADLOCK FALSE
