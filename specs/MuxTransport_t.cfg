SPECIFICATION Spec
CONSTANTS
  Reqs = {1, 2, 3}
  MaxTag = 6
  FixRelease = TRUE
  FixSent = TRUE
  MaxStray = 2
INVARIANT NoViolation
INVARIANT PoolSane
INVARIANT Bounded
INVARIANT ShutdownFailsAll
CHECK_DEADLOCK FALSE
