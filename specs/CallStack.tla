------------------------------ MODULE CallStack ------------------------------
(***************************************************************************)
(* Code-shaped model of a call travelling through a client stack            *)
(* (dispatch.py; sink.py ClientTimeoutSink / ClientMessageSinkStack; the     *)
(* balancer's put-closure; pool/base.py + watermark.py queueing; the serial  *)
(* and multiplexed transports reduced to their yield points).               *)
(*                                                                         *)
(* The heart is the per-call sink stack: every hop pushes a frame; a reply, *)
(* a connection fault or the timer drains it from the top; whoever gets     *)
(* there first wins, later arrivals find it empty.  Frames, bottom to top:  *)
(*   "Resp"  _AsyncResponseSink  -> sets the caller's AsyncResult            *)
(*   "TO"    ClientTimeoutSink   -> cancels the timer                        *)
(*   "Ser"   serializer                                                     *)
(*   "Bal"   balancer put-closure (load--)                                  *)
(*   "Pool"  pool frame holding a connection (released on the way up)       *)
(*   "PoolQ" pool frame holding the QueuingMessageSink (release is a no-op) *)
(* where[c]: "new", "chained" (behind the dispatcher's open result),        *)
(* "spawned" (gevent.spawn(sink.AsyncProcessRequest)), "failing"            *)
(* (FailingMessageSink about to answer), "connecting" (pool _Get parked in  *)
(* Open().wait()), "txn" (serial transaction greenlet before its write),     *)
(* "poolq",                                                                 *)
(* "sendq" (mux send queue), "wire" (request written), "replyq"             *)
(* (_ProcessReply spawned), "idle".                                        *)
(* Time is in ticks of the timer resolution (rounding is C10's business).   *)
(* FixPreOpen = TRUE models the repaired dispatcher (deadline = start +     *)
(* timeout; calls chained behind Open are guarded by a timer); FALSE is the *)
(* code as it was: TLC then produces the C01 counterexamples.               *)
(***************************************************************************)
EXTENDS Integers, Sequences, FiniteSets, TLC

CONSTANTS Calls, MaxT, Timeouts, Mux, FixPreOpen, MaxConns, QueueLen

VARIABLES now, openDone, where, stack, deadline, owed, issuedAt, armed, evt,
          result, sets, doneAt, sent, lateBytes, free, pq, waiters, loadv, tagged, discardOwed

vars == <<now, openDone, where, stack, deadline, owed, issuedAt, armed, evt,
          result, sets, doneAt, sent, lateBytes, free, pq, waiters, loadv, tagged, discardOwed>>

NoneT == -1

Init ==
  /\ now = 0 /\ openDone = FALSE
  /\ where = [c \in Calls |-> "new"]
  /\ stack = [c \in Calls |-> <<>>]
  /\ deadline = [c \in Calls |-> NoneT]      \* what the code computed
  /\ owed = [c \in Calls |-> NoneT]          \* what the caller is owed: issue time + T
  /\ issuedAt = [c \in Calls |-> NoneT]
  /\ armed = [c \in Calls |-> FALSE]
  /\ evt = [c \in Calls |-> FALSE]
  /\ result = [c \in Calls |-> "none"]
  /\ sets = [c \in Calls |-> 0]
  /\ doneAt = [c \in Calls |-> NoneT]
  /\ sent = [c \in Calls |-> FALSE]
  /\ lateBytes = FALSE
  /\ free = MaxConns          \* connections the pool may still lend
  /\ pq = 0                   \* spawned _ProcessQueue tasks, each holding a connection
  /\ waiters = <<>>
  /\ loadv = 0
  /\ tagged = {}              \* mux: calls whose tag is outstanding at the peer
  /\ discardOwed = {}

\* ---- draining a stack ----------------------------------------------------------
RECURSIVE DrainEff(_, _)
DrainEff(st, acc) ==
  IF st = <<>> THEN acc
  ELSE LET top == st[Len(st)]
           rest == SubSeq(st, 1, Len(st) - 1)
       IN DrainEff(rest,
            CASE top = "Pool" -> [acc EXCEPT !.release = TRUE]
              [] top = "Bal" -> [acc EXCEPT !.put = TRUE]
              [] top = "TO" -> [acc EXCEPT !.cancel = TRUE]
              [] top = "Resp" -> [acc EXCEPT !.resp = TRUE]
              [] OTHER -> acc)
NoEff == [release |-> FALSE, put |-> FALSE, cancel |-> FALSE, resp |-> FALSE]

\* Deliver a message of `kind` (value / error / timeout) to call c's stack.
Deliver(c, kind) ==
  LET eff == DrainEff(stack[c], NoEff) IN
  /\ stack' = [stack EXCEPT ![c] = <<>>]
  /\ armed' = [armed EXCEPT ![c] = IF eff.cancel THEN FALSE ELSE armed[c]]
  /\ loadv' = IF eff.put THEN loadv - 1 ELSE loadv
  /\ IF eff.resp
     THEN /\ result' = [result EXCEPT ![c] = kind]
          /\ sets' = [sets EXCEPT ![c] = sets[c] + 1]
          /\ doneAt' = [doneAt EXCEPT ![c] = IF doneAt[c] = NoneT THEN now ELSE doneAt[c]]
     ELSE UNCHANGED <<result, sets, doneAt>>
  \* _Release: waiters queued -> spawn _ProcessQueue(conn); else the connection is free again
  /\ IF eff.release
     THEN IF waiters # <<>> THEN pq' = pq + 1 /\ UNCHANGED free
          ELSE free' = free + 1 /\ UNCHANGED pq
     ELSE UNCHANGED <<free, pq>>

\* ---- the caller -----------------------------------------------------------------
Issue(c, T) ==
  /\ where[c] = "new"
  /\ issuedAt' = [issuedAt EXCEPT ![c] = now]
  /\ owed' = [owed EXCEPT ![c] = now + T]
  /\ deadline' = [deadline EXCEPT ![c] = now + T]
  /\ stack' = [stack EXCEPT ![c] = <<"Resp">>]
  /\ IF openDone
     THEN where' = [where EXCEPT ![c] = "spawned"] /\ UNCHANGED armed
     ELSE /\ where' = [where EXCEPT ![c] = "chained"]
          /\ armed' = [armed EXCEPT ![c] = FixPreOpen]   \* repaired: a timer guards the wait
  /\ UNCHANGED <<now, openDone, evt, result, sets, doneAt, sent, lateBytes, free, pq, waiters, loadv, tagged, discardOwed>>

\* Open() completes: chained calls are dispatched, in order, with the deadline the code computes:
\* start + timeout - open_latency in the original, start + timeout when repaired.
CodeDeadline(c) == IF FixPreOpen THEN deadline[c] ELSE deadline[c] - (now - issuedAt[c])
OpenComplete ==
  /\ ~openDone
  /\ openDone' = TRUE
  /\ where' = [c \in Calls |-> IF where[c] = "chained"
                                THEN (IF result[c] = "none" THEN "spawned" ELSE "idle")
                                ELSE where[c]]
  /\ deadline' = [c \in Calls |-> IF where[c] = "chained" THEN CodeDeadline(c) ELSE deadline[c]]
  /\ armed' = [c \in Calls |-> IF where[c] = "chained" THEN FALSE ELSE armed[c]]
  /\ UNCHANGED <<now, stack, owed, issuedAt, evt, result, sets, doneAt, sent, lateBytes, free, pq, waiters, loadv, tagged, discardOwed>>

Down == <<"TO", "Ser", "Bal">>   \* the pool frame is pushed only when _Get returns (ConnectDone)

\* gevent.spawn(sink.AsyncProcessRequest): timeout sink, serializer, balancer, pool / transport
RunSpawned(c) ==
  /\ where[c] = "spawned"
  /\ IF deadline[c] < now
     THEN \* ClientTimeoutSink: the deadline has passed -> _TimeoutHelper(None, stack)
          /\ Deliver(c, "timeout")
          /\ where' = [where EXCEPT ![c] = "idle"]
          /\ UNCHANGED waiters
     ELSE \/ /\ (Mux \/ free > 0)
             /\ stack' = [stack EXCEPT ![c] = stack[c] \o Down]
             /\ armed' = [armed EXCEPT ![c] = TRUE]
             /\ loadv' = loadv + 1
             /\ free' = IF Mux THEN free ELSE free - 1
             /\ where' = [where EXCEPT ![c] = IF Mux THEN "sendq" ELSE "connecting"]
             /\ UNCHANGED <<result, sets, doneAt, pq, waiters>>
          \/ /\ ~Mux /\ free = 0 /\ Len(waiters) < QueueLen
             /\ stack' = [stack EXCEPT ![c] = stack[c] \o <<"TO", "Ser", "Bal", "PoolQ">>]
             /\ armed' = [armed EXCEPT ![c] = TRUE]
             /\ loadv' = loadv + 1
             /\ waiters' = Append(waiters, c)
             /\ where' = [where EXCEPT ![c] = "poolq"]
             /\ UNCHANGED <<result, sets, doneAt, free, pq>>
          \/ /\ ~Mux /\ free = 0 /\ Len(waiters) >= QueueLen
             /\ stack' = [stack EXCEPT ![c] = stack[c] \o <<"TO", "Ser", "Bal", "PoolQ">>]
             /\ armed' = [armed EXCEPT ![c] = TRUE]
             /\ loadv' = loadv + 1
             /\ where' = [where EXCEPT ![c] = "failing"]
             /\ UNCHANGED <<result, sets, doneAt, free, pq, waiters>>
  /\ UNCHANGED <<now, openDone, deadline, owed, issuedAt, evt, sent, lateBytes, tagged, discardOwed>>

FailNow(c) ==
  /\ where[c] = "failing"
  /\ Deliver(c, "error")
  /\ where' = [where EXCEPT ![c] = "idle"]
  /\ UNCHANGED <<now, openDone, deadline, owed, issuedAt, evt, sent, lateBytes, waiters, tagged, discardOwed>>

\* serial stack: the pool's _Get returns (cached connection, or Open().wait() resumed whatever
\* its outcome); the pool frame is pushed -- even onto a stack the timer has drained meanwhile --
\* and the transport spawns its transaction greenlet.
ConnectDone(c) ==
  /\ where[c] = "connecting"
  /\ stack' = [stack EXCEPT ![c] = stack[c] \o <<"Pool">>]
  /\ where' = [where EXCEPT ![c] = "txn"]
  /\ UNCHANGED <<now, openDone, deadline, owed, issuedAt, armed, evt, result, sets, doneAt, sent, lateBytes, free, pq, waiters, loadv, tagged, discardOwed>>

\* The request reaches the point where bytes are written.
\*  mux: _SendLoop dequeues it; _HandleTimeout drops it if the timeout event is already set.
\*  serial: the transaction greenlet checks `deadline - now < 0` first (TimeoutError, no bytes);
\*  deadlines are tick-aligned here, and once the timer has fired (evt) real time is strictly past
\*  the deadline, hence the disjunct evt[c].
Write(c) ==
  /\ where[c] \in {"txn", "sendq"}
  /\ IF (where[c] = "sendq" /\ evt[c]) \/ (where[c] = "txn" /\ (deadline[c] < now \/ evt[c]))
     THEN /\ where' = [where EXCEPT ![c] = "idle"]
          /\ IF where[c] = "txn" THEN Deliver(c, "timeout")
             ELSE UNCHANGED <<stack, armed, loadv, result, sets, doneAt, free, pq>>
          /\ UNCHANGED <<sent, lateBytes, tagged>>
     ELSE /\ where' = [where EXCEPT ![c] = "wire"]
          /\ sent' = [sent EXCEPT ![c] = TRUE]
          /\ lateBytes' = (lateBytes \/ result[c] = "timeout")
          /\ tagged' = IF Mux THEN tagged \cup {c} ELSE tagged
          /\ UNCHANGED <<stack, armed, loadv, result, sets, doneAt, free, pq>>
  /\ UNCHANGED <<now, openDone, deadline, owed, issuedAt, evt, waiters, discardOwed>>

\* connect / read / write failure: the transport posts an error on the stack
IoFault(c) ==
  /\ where[c] \in {"txn", "wire", "sendq"}
  /\ Deliver(c, "error")
  /\ where' = [where EXCEPT ![c] = "idle"]
  /\ tagged' = tagged \ {c}
  /\ discardOwed' = discardOwed \ {c}
  /\ UNCHANGED <<now, openDone, deadline, owed, issuedAt, evt, sent, lateBytes, waiters>>

\* a reply arrives (possibly long after the caller gave up): _ProcessReply is spawned
Reply(c) ==
  /\ where[c] = "wire"
  /\ where' = [where EXCEPT ![c] = "replyq"]
  /\ tagged' = tagged \ {c}
  /\ discardOwed' = discardOwed \ {c}
  /\ UNCHANGED <<now, openDone, stack, deadline, owed, issuedAt, armed, evt, result, sets, doneAt, sent, lateBytes, free, pq, waiters, loadv>>

ProcessReply(c) ==
  /\ where[c] = "replyq"
  /\ Deliver(c, "value")
  /\ where' = [where EXCEPT ![c] = "idle"]
  /\ UNCHANGED <<now, openDone, deadline, owed, issuedAt, evt, sent, lateBytes, waiters, tagged, discardOwed>>

\* the timer fires: the timeout event is set, the stack is drained with TimeoutError
TimerFire(c) ==
  /\ armed[c] /\ now >= deadline[c]
  /\ evt' = [evt EXCEPT ![c] = TRUE]
  /\ Deliver(c, "timeout")
  /\ discardOwed' = IF c \in tagged THEN discardOwed \cup {c} ELSE discardOwed
  /\ UNCHANGED <<now, openDone, where, deadline, owed, issuedAt, sent, lateBytes, waiters, tagged>>

\* mux: the deferred timeout_proc sends Tdiscarded for a tag that is still outstanding
SendDiscard(c) ==
  /\ c \in discardOwed
  /\ discardOwed' = discardOwed \ {c}
  /\ tagged' = tagged \ {c}
  /\ UNCHANGED <<now, openDone, where, stack, deadline, owed, issuedAt, armed, evt, result, sets, doneAt, sent, lateBytes, free, pq, waiters, loadv>>

\* pool: a spawned _ProcessQueue(conn) serves the first waiter that is still alive
\* (repaired watermark pool: timed-out waiters are skipped, the connection is not lost)
RECURSIVE FirstLive(_)
FirstLive(ws) == IF ws = <<>> THEN <<>> ELSE IF stack[Head(ws)] # <<>> THEN ws ELSE FirstLive(Tail(ws))
ProcessQueue ==
  /\ pq > 0
  /\ pq' = pq - 1
  /\ LET ws == FirstLive(waiters) IN
     IF ws = <<>>
     THEN /\ waiters' = <<>> /\ free' = free + 1
          /\ where' = [c \in Calls |-> IF where[c] = "poolq" THEN "idle" ELSE where[c]]
          /\ UNCHANGED stack
     ELSE LET c == Head(ws) IN
          /\ waiters' = Tail(ws)
          /\ stack' = [stack EXCEPT ![c] = SubSeq(stack[c], 1, Len(stack[c]) - 1) \o <<"Pool">>]
          /\ where' = [d \in Calls |-> IF d = c THEN "txn"
                                        ELSE IF where[d] = "poolq" /\ ~(\E i \in DOMAIN ws : ws[i] = d) THEN "idle"
                                        ELSE where[d]]
          /\ UNCHANGED free
  /\ UNCHANGED <<now, openDone, deadline, owed, issuedAt, armed, evt, result, sets, doneAt, sent, lateBytes, loadv, tagged, discardOwed>>

RunQueueEmpty ==
  /\ \A c \in Calls : where[c] \notin {"spawned", "failing", "replyq"}
  /\ pq = 0 /\ discardOwed = {}

\* time passes only when the run queue is empty, and never past a due, armed timer (C10)
Tick ==
  /\ now < MaxT
  /\ RunQueueEmpty
  /\ \A c \in Calls : ~(armed[c] /\ deadline[c] <= now)
  /\ now' = now + 1
  /\ UNCHANGED <<openDone, where, stack, deadline, owed, issuedAt, armed, evt, result, sets, doneAt, sent, lateBytes, free, pq, waiters, loadv, tagged, discardOwed>>

Next ==
  \/ \E c \in Calls, T \in Timeouts : Issue(c, T)
  \/ OpenComplete
  \/ \E c \in Calls : RunSpawned(c) \/ FailNow(c) \/ ConnectDone(c) \/ Write(c) \/ IoFault(c) \/ Reply(c)
                      \/ ProcessReply(c) \/ TimerFire(c) \/ SendDiscard(c)
  \/ ProcessQueue
  \/ Tick

Spec == Init /\ [][Next]_vars

\* ------------------------------------------------------------------ properties
\* C01.once: the response sink is reached at most once per call
Once == \A c \in Calls : sets[c] <= 1
\* C01.notEarly: TimeoutError is never delivered before t+T
NotEarly == \A c \in Calls : result[c] = "timeout" => doneAt[c] >= owed[c]
\* C01.deadline: completion no later than t+T
OnTime == \A c \in Calls : doneAt[c] # NoneT => doneAt[c] <= owed[c]
\* C01.completes, as bounded-time safety at quiescent points
Completes == \A c \in Calls :
  (owed[c] # NoneT /\ now > owed[c] /\ RunQueueEmpty) => result[c] # "none"
\* C12.noLateBytes
NoLateBytes == ~lateBytes
\* C04-style conservation: balancer load equals the number of live Bal frames
LoadConserved == loadv = Cardinality({c \in Calls : \E i \in DOMAIN stack[c] : stack[c][i] = "Bal"})
\* pool capacity is conserved: lent + free + held by _ProcessQueue = MaxConns
PoolConserved == Mux \/
  free + pq + Cardinality({c \in Calls : where[c] = "connecting"})
    + Cardinality({c \in Calls : \E i \in DOMAIN stack[c] : stack[c][i] = "Pool"}) = MaxConns
\* C12.discard: a discard is owed only for tags still outstanding, and is sent before time moves
DiscardBeforeTick == discardOwed \subseteq tagged
=============================================================================
