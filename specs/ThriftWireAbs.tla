---------------------------- MODULE ThriftWireAbs ----------------------------
(***************************************************************************)
(* C14 -- property-level oracle for framed Thrift calls and replies.       *)
(*                                                                         *)
(* Observable events (each is one recorded (input, output) pair of the     *)
(* real code; the machine keeps no state between them apart from a count): *)
(*                                                                         *)
(*  Call(m, pos, kw, bytes, tx, srv)                                       *)
(*     the caller invoked method m with positional values pos and keyword  *)
(*     values kw; `bytes` is everything the peer received for the call on  *)
(*     its (healthy, open) connection, i.e. the concatenation of what the  *)
(*     socket accepted from every send() -- one send() may accept only     *)
(*     part of the buffer it is offered; `tx` (optional) lists the         *)
(*     accepted sizes; `srv` is what the Thrift library's generated        *)
(*     Processor decoded from the payload (name bytes, message type,       *)
(*     seqid, argument fields; ok = 0 when it never saw a complete frame). *)
(*     The connection stays open and writable until the call has ended     *)
(*     (reply, error or timeout), so a frame that was announced by its     *)
(*     length word but never completed shows as Len(bytes) - 4 # length.   *)
(*  Reply(m, stream, out, ref)                                             *)
(*     `stream` is the byte stream the peer sent before closing; `out` is  *)
(*     what the caller of m observed when the stream was delivered with a  *)
(*     scripted chunking, `ref` what it observed when every socket read    *)
(*     got all the bytes it asked for.                                     *)
(*  Write(variant, payload, accepts, rx)                                   *)
(*     transport-level: the transport was handed `payload` for one         *)
(*     transaction on a fresh connection whose socket accepted the sizes   *)
(*     accepts[i][2] of the offered accepts[i][1] bytes per send(); `rx`   *)
(*     is what the peer had received when the connection went quiet.       *)
(*  Read(stream, rets, refs)                                               *)
(*     transport-level: consecutive transactions on one connection whose   *)
(*     peer sends `stream`; rets[i] / refs[i] = what transaction i handed  *)
(*     upstream (a frame's bytes or an error) under the scripted / the     *)
(*     reference chunking.                                                 *)
(*                                                                         *)
(* Clauses (exactly the sentences of the property):                        *)
(*  C14.framePrefix       bytes sent = 4-byte big-endian length + payload  *)
(*                        (exactly that many bytes: nothing missing,       *)
(*                        nothing after them), however the socket split    *)
(*                        the acceptance of the bytes across send() calls  *)
(*  C14.callBytes         payload = strict binary-protocol call of m with  *)
(*                        the given arguments (CALL, or ONEWAY for oneway) *)
(*  C14.processorDecodes  the library's Processor decoded the payload to   *)
(*                        the same method and arguments                    *)
(*  C14.normalReply       a normal reply yields its return value           *)
(*  C14.exceptionRaised   a declared exception / application exception is  *)
(*                        raised as the library's error carrying it as     *)
(*                        inner exception                                  *)
(*  C14.voidNone          a void result yields None                        *)
(*  C14.nextBytes         a transaction hands upstream exactly the next    *)
(*                        frame of the stream                              *)
(*  C14.chunkIndependent  the outcome does not depend on the chunking      *)
(* Calls of one client may be in flight concurrently (each on its own       *)
(* pooled connection) and clients of different interfaces may live in one  *)
(* process; the property speaks about every call on its own, so every      *)
(* Call / Reply pair is judged by itself, whatever else was outstanding    *)
(* (the events carry the interface-qualified method key into Idl).         *)
(* Nothing is asserted for replies outside the property (non-void reply    *)
(* without a result, malformed payloads, truncated streams beyond          *)
(* chunk-independence).                                                    *)
(***************************************************************************)
EXTENDS TBinaryWire

VARIABLE nseen      \* number of events consumed (the only state)
avars == <<nseen>>

AInit == nseen = 0

\* ---------------------------------------------------------------- Call
\* harness sanity: the accepted sizes account for exactly the bytes the peer received
SumSeq(s) == FoldLeft(LAMBDA acc, x : acc + x, 0, s)
TxConsistent(tx, bytes) == (\A i \in DOMAIN tx : tx[i] >= 0) /\ SumSeq(tx) = Len(bytes)

CallCheck(e) ==
  IF ~CallWellFormed(e.m, e.pos, e.kw) THEN "harness.callWellFormed"
  ELSE IF "tx" \in DOMAIN e /\ ~TxConsistent(e.tx, e.bytes) THEN "harness.txAccepted"
  ELSE IF Len(e.bytes) < 4 \/ RdI32(e.bytes, 0) # Len(e.bytes) - 4 THEN "C14.framePrefix"
  ELSE LET payload == SubSeq(e.bytes, 5, Len(e.bytes))
           pm == ParseMsg(payload)
           seq == IF pm.ok THEN pm.seq ELSE 0      \* the sequence id is free
           want == ArgFields(e.m, e.pos, e.kw)
       IN IF payload # EncCall(e.m, e.pos, e.kw, seq) THEN "C14.callBytes"
          ELSE IF e.srv.ok # 1 THEN "C14.processorDecodes"
          ELSE IF e.srv.m # Idl[e.m].nm THEN "C14.processorDecodes"
          ELSE IF e.srv.mtype # (IF Idl[e.m].oneway THEN TOneway ELSE TCall) THEN "C14.processorDecodes"
          ELSE IF \E i \in DOMAIN e.srv.args : ~Encodable(e.srv.args[i].v) THEN "C14.processorDecodes"
          ELSE IF EncFields(e.srv.args) # EncFields(want) THEN "C14.processorDecodes"
          ELSE "ok"

\* ---------------------------------------------------------------- Reply
\* o = [kind \in {"value", "none", "error"}, wrapped \in {0,1}, cls, v]
OutcomeCheck(o, presc) ==
  CASE presc.kind = "value" ->
         IF o.kind = "value" /\ Encodable(o.v) /\ TypeCode(o.v.t) = presc.ty
            /\ EncVal(o.v) = presc.bytes THEN "ok" ELSE "C14.normalReply"
    [] presc.kind = "error" ->
         IF o.kind = "error" /\ o.wrapped = 1 /\ o.cls = presc.cls /\ Encodable(o.v)
            /\ o.v.t = "struct" /\ EncVal(o.v) = presc.bytes THEN "ok" ELSE "C14.exceptionRaised"
    [] presc.kind = "none" -> IF o.kind = "none" THEN "ok" ELSE "C14.voidNone"
    [] OTHER -> "ok"

\* equality of two outcomes without ever comparing values of different shapes
OutEq(a, b) ==
  /\ a.kind = b.kind /\ a.wrapped = b.wrapped /\ a.cls = b.cls /\ a.v.t = b.v.t
  /\ Encodable(a.v) = Encodable(b.v)
  /\ Encodable(a.v) => EncVal(a.v) = EncVal(b.v)

ReplyCheck(e) ==
  IF e.m \notin Methods THEN "harness.method"
  ELSE LET fr == FrameAt(e.stream, 0)
           presc == IF fr.kind = "frame" THEN Classify(e.m, fr.body) ELSE Unspec
           c1 == OutcomeCheck(e.ref, presc)
           c2 == OutcomeCheck(e.out, presc)
       IN IF c1 # "ok" THEN c1
          ELSE IF c2 # "ok" THEN c2
          ELSE IF ~OutEq(e.out, e.ref) THEN "C14.chunkIndependent"
          ELSE "ok"

\* ---------------------------------------------------------------- Write
\* The bytes sent for one transaction are the 4-byte length plus the payload, whatever
\* part of each offered buffer the socket accepted.
WriteCheck(e) ==
  IF ~TxConsistent([i \in DOMAIN e.accepts |-> e.accepts[i][2]], e.rx) THEN "harness.txAccepted"
  ELSE IF e.rx # Frame(e.payload) THEN "C14.framePrefix"
  ELSE "ok"

\* ---------------------------------------------------------------- Read
\* r = [kind \in {"frame", "error"}, bytes, cls]
ReadCheck(e) ==
  LET walk == FoldLeft(
        LAMBDA acc, i :
          IF acc.v # "ok" \/ acc.stop THEN acc
          ELSE LET fr == FrameAt(e.stream, acc.p) IN
               IF fr.kind # "frame" THEN [acc EXCEPT !.stop = TRUE]
               ELSE IF e.rets[i].kind = "frame" /\ e.rets[i].bytes = fr.body
                    THEN [acc EXCEPT !.p = fr.next]
                    ELSE [acc EXCEPT !.v = "C14.nextBytes"],
        [p |-> 0, v |-> "ok", stop |-> FALSE], [i \in 1..Len(e.rets) |-> i])
  IN IF walk.v # "ok" THEN walk.v
     ELSE IF e.rets # e.refs THEN "C14.chunkIndependent"
     ELSE "ok"

Upd == nseen' = nseen + 1
=============================================================================
