---------------------------- MODULE ThriftWireAbs ----------------------------
(***************************************************************************)
(* C14 -- property-level oracle for framed Thrift calls and replies.       *)
(*                                                                         *)
(* Observable events (each is one recorded (input, output) pair of the     *)
(* real code; the machine keeps no state between them apart from a count): *)
(*                                                                         *)
(*  Call(m, pos, kw, bytes, tx, srv)                                       *)
(*     the caller invoked method m with positional values pos and keyword  *)
(*     values kw; `bytes` is everything the peer received for the call on  *)
(*     its (healthy, open) connection, i.e. the concatenation of what the  *)
(*     socket accepted from every send() -- one send() may accept only     *)
(*     part of the buffer it is offered; `tx` (optional) lists the         *)
(*     accepted sizes; `srv` is what the Thrift library's generated        *)
(*     Processor decoded from the payload (name bytes, message type,       *)
(*     seqid, argument fields; ok = 0 when it never saw a complete frame). *)
(*     The connection stays open and writable until the call has ended     *)
(*     (reply, error or timeout), so a frame that was announced by its     *)
(*     length word but never completed shows as Len(bytes) - 4 # length.   *)
(*  Reply(m, stream, out, ref)                                             *)
(*     `stream` is the byte stream the peer sent before closing; `out` is  *)
(*     what the caller of m observed when the stream was delivered with a  *)
(*     scripted chunking, `ref` what it observed when every socket read    *)
(*     got all the bytes it asked for.                                     *)
(*  Write(variant, payload, accepts, rx)                                   *)
(*     transport-level: the transport was handed `payload` for one         *)
(*     transaction on a fresh connection whose socket accepted the sizes   *)
(*     accepts[i][2] of the offered accepts[i][1] bytes per send(); `rx`   *)
(*     is what the peer had received when the connection went quiet.       *)
(*  Wire(calls, conns)                                                     *)
(*     one scenario on one client: the calls that were made and, for every *)
(*     connection the client opened, the byte stream the peer received,    *)
(*     its lengths at the quiescent points and what the Processor decoded  *)
(*     from each complete frame (see WireCheck).                           *)
(*  Read(stream, rets, refs)                                               *)
(*     transport-level: consecutive transactions on one connection whose   *)
(*     peer sends `stream`; rets[i] / refs[i] = what transaction i handed  *)
(*     upstream (a frame's bytes or an error) under the scripted / the     *)
(*     reference chunking.                                                 *)
(*                                                                         *)
(* Clauses (exactly the sentences of the property):                        *)
(*  C14.framePrefix       bytes sent = 4-byte big-endian length + payload  *)
(*                        (exactly that many bytes: nothing missing,       *)
(*                        nothing after them), however the socket split    *)
(*                        the acceptance of the bytes across send() calls  *)
(*  C14.callBytes         payload = strict binary-protocol call of m with  *)
(*                        the given arguments (CALL, or ONEWAY for oneway) *)
(*  C14.processorDecodes  the library's Processor decoded the payload to   *)
(*                        the same method and arguments                    *)
(*  C14.normalReply       a normal reply yields its return value           *)
(*  C14.exceptionRaised   a declared exception / application exception is  *)
(*                        raised as the library's error carrying it as     *)
(*                        inner exception                                  *)
(*  C14.voidNone          a void result yields None                        *)
(*  C14.nextBytes         a transaction hands upstream exactly the next    *)
(*                        frame of the stream                              *)
(*  C14.chunkIndependent  the outcome does not depend on the chunking      *)
(* Calls of one client may be in flight concurrently (each on its own       *)
(* pooled connection) and clients of different interfaces may live in one  *)
(* process; the property speaks about every call on its own, so every      *)
(* Call / Reply pair is judged by itself, whatever else was outstanding    *)
(* (the events carry the interface-qualified method key into Idl).         *)
(* Nothing is asserted for replies outside the property (non-void reply    *)
(* without a result, malformed payloads, truncated streams beyond          *)
(* chunk-independence).                                                    *)
(***************************************************************************)
EXTENDS TBinaryWire

VARIABLE nseen      \* number of events consumed (the only state)
avars == <<nseen>>

AInit == nseen = 0

\* ---------------------------------------------------------------- Call
\* harness sanity: the accepted sizes account for exactly the bytes the peer received
SumSeq(s) == FoldLeft(LAMBDA acc, x : acc + x, 0, s)
TxConsistent(tx, bytes) == (\A i \in DOMAIN tx : tx[i] >= 0) /\ SumSeq(tx) = Len(bytes)

\* srv = what the Thrift library's Processor decoded from a payload; it agrees with the call (m, pos, kw)
ProcessorAgrees(srv, m, pos, kw) ==
  /\ srv.ok = 1
  /\ srv.m = Idl[m].nm
  /\ srv.mtype = (IF Idl[m].oneway THEN TOneway ELSE TCall)
  /\ \A i \in DOMAIN srv.args : Encodable(srv.args[i].v)
  /\ EncFields(srv.args) = EncFields(ArgFields(m, pos, kw))

CallCheck(e) ==
  IF ~CallWellFormed(e.m, e.pos, e.kw) THEN "harness.callWellFormed"
  ELSE IF "tx" \in DOMAIN e /\ ~TxConsistent(e.tx, e.bytes) THEN "harness.txAccepted"
  ELSE IF Len(e.bytes) < 4 \/ RdI32(e.bytes, 0) # Len(e.bytes) - 4 THEN "C14.framePrefix"
  ELSE LET payload == SubSeq(e.bytes, 5, Len(e.bytes))
           pm == ParseMsg(payload)
           seq == IF pm.ok THEN pm.seq ELSE 0      \* the sequence id is free
       IN IF payload # EncCall(e.m, e.pos, e.kw, seq) THEN "C14.callBytes"
          ELSE IF ~ProcessorAgrees(e.srv, e.m, e.pos, e.kw) THEN "C14.processorDecodes"
          ELSE "ok"

\* ---------------------------------------------------------------- Wire
\* One scenario on one client: e.calls are the calls that were made (c = [m, pos, kw], or [raw |-> payload]
\* at transport level), e.conns the connections the client opened, each with the byte stream the peer
\* received on it, the stream's lengths at the quiescent points of the scenario (`cuts`: no call was in
\* flight, every call made so far had returned, failed or timed out) and what the Processor decoded from
\* each complete frame (`srv`).  The sentence "the bytes sent are a 4-byte length plus a binary-protocol
\* call that the processor decodes to the same method and arguments" read for the stream a server receives
\* on a connection:
\*  * the stream is a sequence of complete frames, possibly followed by one unfinished frame (a writer
\*    that gave up, e.g. at its deadline, while the socket took no more bytes); an unfinished frame is
\*    only acceptable if the connection is never written to again: whatever is sent at or after a
\*    quiescent point must start at a frame boundary (C14.framePrefix);
\*  * every complete frame is the binary-protocol call of a call that was made, each made call accounting
\*    for at most one frame (C14.callBytes), and the Processor decodes it to that method and those
\*    arguments (C14.processorDecodes).
\* Whether the connection is closed or merely abandoned after an unfinished frame is not prescribed.
IsCallOf(payload, c) ==
  IF "raw" \in DOMAIN c THEN payload = c.raw
  ELSE LET nm == Idl[c.m].nm
           hl == 12 + Len(nm)
       IN /\ Len(payload) >= hl
          /\ SubSeq(payload, 1, 8 + Len(nm)) = SubSeq(MsgBegin(nm, IF Idl[c.m].oneway THEN TOneway ELSE TCall, 0), 1, 8 + Len(nm))
          /\ SubSeq(payload, hl + 1, Len(payload)) = EncFields(ArgFields(c.m, c.pos, c.kw))   \* the sequence id is free

MinOf(S) == CHOOSE j \in S : \A k \in S : j <= k

\* walk the frames of one connection; used = indices of the made calls already accounted for
WalkConn(conn, calls, used0) ==
  FoldLeft(
    LAMBDA acc, i :
      IF acc.v # "ok" \/ acc.stop THEN acc
      ELSE LET fr == FrameAt(conn.stream, acc.p) IN
           IF fr.kind = "truncated" THEN [acc EXCEPT !.stop = TRUE]      \* end of stream / unfinished frame
           ELSE IF fr.kind = "negative" THEN [acc EXCEPT !.v = "C14.framePrefix"]
           ELSE LET hits == {j \in DOMAIN calls : j \notin acc.used /\ IsCallOf(fr.body, calls[j])} IN
                IF hits = {} THEN [acc EXCEPT !.v = "C14.callBytes"]
                ELSE LET j == MinOf(hits) IN
                     IF "raw" \notin DOMAIN calls[j]
                        /\ (acc.n + 1 \notin DOMAIN conn.srv
                            \/ ~ProcessorAgrees(conn.srv[acc.n + 1], calls[j].m, calls[j].pos, calls[j].kw))
                       THEN [acc EXCEPT !.v = "C14.processorDecodes"]
                       ELSE [acc EXCEPT !.p = fr.next, !.used = @ \cup {j}, !.n = @ + 1, !.bounds = @ \cup {fr.next}],
    [p |-> 0, used |-> used0, v |-> "ok", stop |-> FALSE, n |-> 0, bounds |-> {0}],
    [i \in 1..(Len(calls) + 1) |-> i])

ConnClause(conn, walk) ==
  IF walk.v # "ok" THEN walk.v
  ELSE IF \E i \in DOMAIN conn.cuts : conn.cuts[i] < Len(conn.stream) /\ conn.cuts[i] \notin walk.bounds
    THEN "C14.framePrefix"      \* bytes were sent behind an unfinished frame
  ELSE "ok"

WireWellFormed(e) ==
  /\ \A j \in DOMAIN e.calls : "raw" \in DOMAIN e.calls[j] \/ CallWellFormed(e.calls[j].m, e.calls[j].pos, e.calls[j].kw)
  /\ \A c \in DOMAIN e.conns :
       \A i \in DOMAIN e.conns[c].cuts :
         /\ e.conns[c].cuts[i] >= 0 /\ e.conns[c].cuts[i] <= Len(e.conns[c].stream)
         /\ i > 1 => e.conns[c].cuts[i - 1] <= e.conns[c].cuts[i]

WireCheck(e) ==
  IF ~WireWellFormed(e) THEN "harness.wireWellFormed"
  ELSE FoldLeft(
         LAMBDA acc, c :
           IF acc.v # "ok" THEN acc
           ELSE LET walk == WalkConn(e.conns[c], e.calls, acc.used) IN
                [v |-> ConnClause(e.conns[c], walk), used |-> walk.used],
         [v |-> "ok", used |-> {}], [c \in DOMAIN e.conns |-> c]).v

\* ---------------------------------------------------------------- Reply
\* o = [kind \in {"value", "none", "error"}, wrapped \in {0,1}, cls, v]
OutcomeCheck(o, presc) ==
  CASE presc.kind = "value" ->
         IF o.kind = "value" /\ Encodable(o.v) /\ TypeCode(o.v.t) = presc.ty
            /\ EncVal(o.v) = presc.bytes THEN "ok" ELSE "C14.normalReply"
    [] presc.kind = "error" ->
         IF o.kind = "error" /\ o.wrapped = 1 /\ o.cls = presc.cls /\ Encodable(o.v)
            /\ o.v.t = "struct" /\ EncVal(o.v) = presc.bytes THEN "ok" ELSE "C14.exceptionRaised"
    [] presc.kind = "none" -> IF o.kind = "none" THEN "ok" ELSE "C14.voidNone"
    [] OTHER -> "ok"

\* equality of two outcomes without ever comparing values of different shapes
OutEq(a, b) ==
  /\ a.kind = b.kind /\ a.wrapped = b.wrapped /\ a.cls = b.cls /\ a.v.t = b.v.t
  /\ Encodable(a.v) = Encodable(b.v)
  /\ Encodable(a.v) => EncVal(a.v) = EncVal(b.v)

\* the reply byte stream; long streams travel in run form (`streamr`, see TBinaryWire)
ReplyStream(e) == IF "streamr" \in DOMAIN e THEN ExpandRuns(e.streamr) ELSE e.stream

ReplyCheck(e) ==
  IF e.m \notin Methods THEN "harness.method"
  ELSE LET stream == ReplyStream(e)
           fr == FrameAt(stream, 0)
           presc == IF fr.kind = "frame" THEN Classify(e.m, fr.body) ELSE Unspec
           c1 == OutcomeCheck(e.ref, presc)
           c2 == OutcomeCheck(e.out, presc)
       IN IF c1 # "ok" THEN c1
          ELSE IF c2 # "ok" THEN c2
          ELSE IF ~OutEq(e.out, e.ref) THEN "C14.chunkIndependent"
          ELSE "ok"

\* ---------------------------------------------------------------- Write
\* The bytes sent for one transaction are the 4-byte length plus the payload, whatever
\* part of each offered buffer the socket accepted.
WriteCheck(e) ==
  IF ~TxConsistent([i \in DOMAIN e.accepts |-> e.accepts[i][2]], e.rx) THEN "harness.txAccepted"
  ELSE IF e.rx # Frame(e.payload) THEN "C14.framePrefix"
  ELSE "ok"

\* ---------------------------------------------------------------- Read
\* r = [kind \in {"frame", "error"}, bytes, cls]
ReadCheck(e) ==
  LET walk == FoldLeft(
        LAMBDA acc, i :
          IF acc.v # "ok" \/ acc.stop THEN acc
          ELSE LET fr == FrameAt(e.stream, acc.p) IN
               IF fr.kind # "frame" THEN [acc EXCEPT !.stop = TRUE]
               ELSE IF e.rets[i].kind = "frame" /\ e.rets[i].bytes = fr.body
                    THEN [acc EXCEPT !.p = fr.next]
                    ELSE [acc EXCEPT !.v = "C14.nextBytes"],
        [p |-> 0, v |-> "ok", stop |-> FALSE], [i \in 1..Len(e.rets) |-> i])
  IN IF walk.v # "ok" THEN walk.v
     ELSE IF e.rets # e.refs THEN "C14.chunkIndependent"
     ELSE "ok"

Upd == nseen' = nseen + 1
=============================================================================
