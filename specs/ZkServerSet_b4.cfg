SPECIFICATION Spec
CONSTANTS
  Names = {1, 2, 3, 4}
  NValues = 4
  MaxEnv = 10
  MaxInc = 1
  MaxRaise = 0
  MaxBlock = 0
INVARIANT NoViolation
INVARIANT Structural
INVARIANT Bounded
VIEW View
CHECK_DEADLOCK FALSE
