SPECIFICATION Spec
CONSTANTS
  Tags <- BoundaryTags
  KeyLen = 2
  ValLen = 1
  HiBytes <- HiAll
  Variant = "fixed"
INVARIANT RoundTrip
INVARIANT ChecksAccept
INVARIANT ImplAgrees
CHECK_DEADLOCK FALSE
