SPECIFICATION Spec
CONSTANTS
  Tags <- FiveTags
  KeyLen = 2
  ValLen = 1
  HiBytes <- HiAll
  Variant = "fixed"
INVARIANT RoundTrip
INVARIANT ChecksAccept
INVARIANT ImplAgrees
CHECK_DEADLOCK FALSE
