SPECIFICATION Spec
CONSTANTS
  MinS = {0, 1, 2}
  MaxS = {1, 2, 3}
  QS = {0, 1, 2, 1000}
  NReq = 4
  NConn = 4
  MaxDie = 2
  MaxTmo = 3
  ExtClose = FALSE
  FixPQ = TRUE
  FixDeq = TRUE
  FixMaxW = TRUE
INVARIANT NoViolation
INVARIANT QuietOK
INVARIANT StopOK
INVARIANT ProbeOK
INVARIANT SizeAccounting
INVARIANT CacheXorWaiters
INVARIANT NothingLeaked
INVARIANT SizeBound
CHECK_DEADLOCK FALSE
