------------------------------ MODULE TimerAbs ------------------------------
(***************************************************************************)
(* C10 -- the timer queue as its users see it (property-level oracle).      *)
(*                                                                         *)
(* Observable events, each stamped with the queue's clock:                 *)
(*   Sched(id, T)  a Schedule(T, action_id) call returned                   *)
(*   Cancel(id)    the cancel closure of id was called                      *)
(*   Run(id)       action id started running                                *)
(*   Quiet         the scheduler is quiescent at the current instant       *)
(* Every clause of the property is a named guard.  Check operators return  *)
(* "ok" or the name of the first failing clause and are evaluated in the   *)
(* state *before* the event; Upd operators are the unguarded updates.      *)
(* The machine is the most permissive one satisfying C10: it says nothing  *)
(* about heaps, events or greenlets.                                       *)
(***************************************************************************)
EXTENDS Integers, Sequences, FiniteSets, TLC

VARIABLES aclock,   \* last observed clock value (integer time units)
          ares,     \* resolution of the queue, 0 = none
          aslack,   \* 0 when the queue's clock is the scheduler's clock; for the low-resolution pairing
                    \* (a clock that only ticks once per `slack`) timing clauses hold up to one tick
          sched,    \* id -> [T, rd, seq, at]   (at = clock when scheduled)
          canc,     \* id -> clock of the first cancel
          ran       \* sequence of ids, in the order they ran

avars == <<aclock, ares, aslack, sched, canc, ran>>

Round(res, T) == IF res = 0 THEN T ELSE ((T + res - 1) \div res) * res

RanSet == {ran[i] : i \in DOMAIN ran}


AInitS(res, t0, slack) ==
  /\ aclock = t0
  /\ ares = res
  /\ aslack = slack
  /\ sched = <<>>
  /\ canc = <<>>
  /\ ran = <<>>

AInit(res, t0) == AInitS(res, t0, 0)

\* (rounded deadline, schedule order)
Before(a, b) == \/ sched[a].rd < sched[b].rd
                \/ sched[a].rd = sched[b].rd /\ sched[a].seq < sched[b].seq

ClockCheck(t) == IF t >= aclock THEN "ok" ELSE "harness.clockMonotone"

SchedCheck(id, T, t) ==
  IF ClockCheck(t) # "ok" THEN ClockCheck(t)
  ELSE IF id \in DOMAIN sched THEN "harness.freshId" ELSE "ok"

SchedUpd(id, T, t) ==
  /\ aclock' = t
  /\ sched' = sched @@ (id :> [T |-> T, rd |-> Round(ares, T),
                               seq |-> Cardinality(DOMAIN sched) + 1, at |-> t])
  /\ UNCHANGED <<ares, aslack, canc, ran>>

CancelCheck(id, t) ==
  IF ClockCheck(t) # "ok" THEN ClockCheck(t)
  ELSE IF id \notin DOMAIN sched THEN "harness.knownId" ELSE "ok"

CancelUpd(id, t) ==
  /\ aclock' = t
  /\ canc' = IF id \in DOMAIN canc THEN canc ELSE canc @@ (id :> t)
  /\ UNCHANGED <<ares, aslack, sched, ran>>

RunCheck(id, t) ==
  IF ClockCheck(t) # "ok" THEN ClockCheck(t)
  ELSE IF id \notin DOMAIN sched \/ id \in RanSet THEN "C10.once"
  ELSE IF t < sched[id].T - aslack THEN "C10.notEarly"
  ELSE IF id \in DOMAIN canc /\ canc[id] < sched[id].rd - aslack THEN "C10.cancel"
  ELSE IF \E b \in DOMAIN sched \ (RanSet \cup DOMAIN canc \cup {id}) :
            Before(b, id) /\ sched[b].at < sched[id].rd THEN "C10.order"
  ELSE "ok"

RunUpd(id, t) ==
  /\ aclock' = t
  /\ ran' = Append(ran, id)
  /\ UNCHANGED <<ares, aslack, sched, canc>>

\* No lost wake-up: when nothing more can happen at this instant, every
\* uncancelled action whose rounded deadline has been reached has run.
QuietCheck(t) ==
  IF ClockCheck(t) # "ok" THEN ClockCheck(t)
  ELSE IF \E id \in DOMAIN sched \ (RanSet \cup DOMAIN canc) : sched[id].rd + aslack <= t
       THEN "C10.noLostWakeup"
  ELSE "ok"

QuietUpd(t) == aclock' = t /\ UNCHANGED <<ares, aslack, sched, canc, ran>>

Sched(id, T, t) == SchedCheck(id, T, t) = "ok" /\ SchedUpd(id, T, t)
Cancel(id, t)   == CancelCheck(id, t) = "ok" /\ CancelUpd(id, t)
Run(id, t)      == RunCheck(id, t) = "ok" /\ RunUpd(id, t)
Quiet(t)        == QuietCheck(t) = "ok" /\ QuietUpd(t)
=============================================================================
