SPECIFICATION Spec
CONSTANTS
  CombSet = {"WhenAll", "WhenAny", "Unwrap", "ContinueWith", "Map"}
  N = 4
  Fixed = TRUE
  Follow = FALSE
INVARIANT NoViolation
INVARIANT Structural
CHECK_DEADLOCK FALSE
