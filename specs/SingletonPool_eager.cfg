SPECIFICATION Spec
CONSTANTS
  MaxOpen = 1
  MaxClose = 0
  MaxReq = 3
  MaxConn = 3
  MaxFail = 1
  EagerRelease = TRUE
CONSTRAINT Bound
INVARIANT NoViolation
CHECK_DEADLOCK FALSE
