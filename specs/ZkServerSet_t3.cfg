SPECIFICATION Spec
CONSTANTS
  Names = {1, 2, 3}
  NValues = 3
  MaxEnv = 10
  MaxInc = 3
  MaxRaise = 1
  MaxBlock = 0
INVARIANT NoViolation
INVARIANT Structural
INVARIANT Bounded
VIEW View
CHECK_DEADLOCK FALSE
