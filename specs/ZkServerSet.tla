---------------------------- MODULE ZkServerSet ----------------------------
(***************************************************************************)
(* Code-shaped model of scales/loadbalancer/zookeeper.py ServerSet (C19)    *)
(* running on kazoo's DataWatch / ChildrenWatch recipes and kazoo's         *)
(* SequentialGeventHandler over a ZooKeeper session.                        *)
(*                                                                         *)
(* Server: the watched path (present?, incarnation number = its mzxid),     *)
(* member nodes under it, the session's one-shot watches (data watch on the *)
(* path, child watchers in arming order).                                   *)
(* Client greenlets and their yield points (every ZooKeeper call yields):   *)
(*   IG  the greenlet constructing the ServerSet: _monitor's exists(), then *)
(*       DataWatch(...) -> _get_data                                        *)
(*   CW  kazoo's single callback worker: runs queued watch callbacks one at *)
(*       a time: DataWatch._watcher -> _get_data, ChildrenWatch._watcher    *)
(*       -> _get_children                                                   *)
(*   S1..S4 greenlets spawned by _get_data when exists() finds the node     *)
(*   NW  ServerSet._notification_worker: Queue.get(), one get() per new node*)
(* _get_data: [lock] get(path, watch) -> ok: version check, _data_changed   *)
(*   (first time: ChildrenWatch(...) -> get_children inside the callback)   *)
(*   -> NoNode: exists(path, watch) -> stat: spawn _get_data, return        *)
(*                                   -> None: version check, _data_changed  *)
(* Requests are answered in the order they were issued (one session);       *)
(* a request is linearised when it is answered (action Serve).  A watch     *)
(* event is put on the callback queue when it fires: for a client that only *)
(* acts when it reads from its connection, a delayed event is the same as a *)
(* later tree operation.                                                   *)
(* One action = one environment step (tree operation or Serve) followed by  *)
(* the client's loop cascade run to exhaustion in gevent's FIFO order       *)
(* (operator Cascade over the run queue c.runq): this is exactly what the   *)
(* real hub does between two reads from the connection.                     *)
(* Python specifics that matter and are modelled: sets of names iterate in  *)
(* one fixed global order (the harness picks names whose hash slots are     *)
(* ascending; here: ascending integers); dict _members keeps insertion      *)
(* order; `for k in d.keys(): d.pop(k)` raises RuntimeError after the first *)
(* pop.                                                                    *)
(* The consumer raises from on_join for member values in rj and from       *)
(* on_leave for values in rl (a policy fixed per behaviour).  It BLOCKS in  *)
(* on_join for values in bj and in on_leave for values in bl: the           *)
(* notification worker is parked inside the callback (it is the worker's    *)
(* greenlet that runs it) until the environment lets the callback return    *)
(* (action Return); a callback that blocks and raises raises when it        *)
(* returns.  _members is updated the way the code does it: all new members  *)
(* first, then one pop right before every on_leave.                         *)
(* The property machine ZkAbs is folded over the callbacks of every step;   *)
(* `viol` keeps the first failing clause.                                   *)
(*                                                                         *)
(* Repairs (fixes/C19-*.diff) are modelled behind switches read from the    *)
(* environment, so the same module yields the counterexamples on the       *)
(* unchanged code and the proof-in-bounds on the repaired one:             *)
(*   ZKFIX_PD  C19-parent-delete: _data_changed(None) reports an empty      *)
(*             child set through _on_set_changed instead of calling         *)
(*             _send_all_removed                                            *)
(*   ZKFIX_VM  C19-vanished-member (on top of PD): the queue carries the    *)
(*             listing, the worker diffs it against _members                *)
(*   ZKFIX_DW  C19-stale-children-watch: the children watch is restarted    *)
(*             for every new incarnation (czxid) of the path, a superseded  *)
(*             ChildrenWatch stops itself, deletion of the path invalidates *)
(*             the current one                                              *)
(***************************************************************************)
EXTENDS ZkAbs, SequencesExt, IOUtils

CONSTANTS Names,      \* member node names: 1..N
          NValues,    \* number of distinct member data values: node m carries Data[m] (below);
                      \* NValues < number of names: names m and m + NValues carry equal data
                      \* (one instance registering again under a new node name)
          MaxEnv,     \* length bound of the tree history
          MaxInc,     \* how many times the path may be created
          MaxRaise,   \* size bound of the raising policy
          MaxBlock    \* size bound of the blocking policy

FixPD == "ZKFIX_PD" \in DOMAIN IOEnv   \* parent deletion goes through the worker queue
FixVM == "ZKFIX_VM" \in DOMAIN IOEnv   \* the worker diffs listings against _members
FixDW == "ZKFIX_DW" \in DOMAIN IOEnv   \* children watch restarted per incarnation of the path
\* a weaker form of the last repair (the watch of a deleted incarnation is not invalidated),
\* kept only as a generator of regression histories for the real code
NoInv == "ZKFIX_NOINV" \in DOMAIN IOEnv
\* a plausible wrong design ("make before break": the joins of a listing are delivered before its
\* leaves), also only a generator of regression histories
JoinsFirst == "ZKFIX_JBL" \in DOMAIN IOEnv
\* a plausible wrong design ("a wedged consumer must not hold up membership updates for ever": every callback runs
\* under a gevent.Timeout, which is a BaseException and passes `except Exception`): when the time of a blocked
\* callback is up (action Expire) the notification worker dies; also only a generator of regression histories
CbTimeout == "ZKFIX_TO" \in DOMAIN IOEnv
\* another plausible wrong design ("nothing to report while no member is announced": _data_changed(None)
\* queues the empty listing only when _members is non-empty, otherwise it just resets _nodes), also only a
\* generator of regression histories: it loses the deletion of the path when that falls between the reads
\* of the first members of a listing (_members is filled only after the last read of a batch)
LazyEmpty == "ZKFIX_LZ" \in DOMAIN IOEnv

VARIABLES parent, pinc, kids, dataW, childW,   \* server
          c,                                   \* client (record, see Init)
          rj, rl, bj, bl,                      \* consumer policy (raising, blocking)
          envn, lastAct, viol
svars == <<parent, pinc, kids, dataW, childW>>
pol == <<rj, rl, bj, bl>>
vars == <<svars, c, pol, envn, lastAct, viol, ast>>

Data == [m \in Names |-> ((m - 1) % NValues) + 1]
Values == {Data[m] : m \in Names}
SGs == {"S1", "S2", "S3", "S4"}
GIds == {"IG", "CW"} \cup SGs

Sorted(S) == SetToSortSeq(S, LAMBDA a, b : a < b)
G0 == [pc |-> "dead", iv |-> 0, k |-> 0]
NW0 == [pc |-> "qget", removed |-> {}, todo |-> <<>>, got |-> <<>>, kids |-> {}, rest |-> <<>>]

\* ------------------------------------------------------------------ small helpers
Issue(s, g) == [s EXCEPT !.reqs = Append(@, g)]
Emit(s, evs) == [s EXCEPT !.out = @ \o evs]

LeaveEvs(m) == IF Data[m] \in rl THEN <<Mk("Leave", m, Data[m]), Mk("Raised", 0, 0)>> ELSE <<Mk("Leave", m, Data[m])>>
JoinEvs(m) == IF Data[m] \in rj THEN <<Mk("Join", m, Data[m]), Mk("Raised", 0, 0)>> ELSE <<Mk("Join", m, Data[m])>>
RECURSIVE Flat(_)
Flat(ss) == IF ss = <<>> THEN <<>> ELSE Head(ss) \o Flat(Tail(ss))
MapSeq(s, Op(_)) == [i \in DOMAIN s |-> Op(s[i])]

\* Queue.put on the notification queue / the callback queue: a parked getter is woken
\* by one unlock callback
NqPut(s, item) ==
  LET s1 == [s EXCEPT !.nq = Append(@, item)] IN
  IF s1.nw.pc = "qget" /\ ~s1.nwnotif
  THEN [s1 EXCEPT !.nwnotif = TRUE, !.runq = Append(@, <<"nwq", "NW">>)] ELSE s1

Dispatch(s, cbs) ==
  IF cbs = <<>> THEN s
  ELSE LET s1 == [s EXCEPT !.cbq = @ \o cbs] IN
       IF s1.gl["CW"].pc = "idle" /\ ~s1.cbnotif
       THEN [s1 EXCEPT !.cbnotif = TRUE, !.runq = Append(@, <<"cbq", "CW">>)] ELSE s1

\* ------------------------------------------------------------------ ServerSet callbacks
\* _on_set_changed(children)
OnSetChanged(s, children) ==
  IF FixVM
  THEN NqPut([s EXCEPT !.nodes = children], [new |-> {}, removed |-> {}, kids |-> children])
  ELSE NqPut([s EXCEPT !.nodes = children],
             [new |-> children \ s.nodes, removed |-> s.nodes \ children, kids |-> {}])

\* _send_all_removed(): `for k in self._members.keys(): member = self._members.pop(k);
\* self._on_leave(member)`: the first member is popped and reported, then either the
\* callback's own exception or "dictionary changed size during iteration" ends the loop.
\* Returns the state; an exception (if any) only ends the enclosing _get_data early,
\* which has nothing left to do anyway.
SendAllRemoved(s) ==
  IF s.members = <<>> THEN s
  ELSE Emit([s EXCEPT !.members = Tail(@)], LeaveEvs(Head(s.members)))

\* ------------------------------------------------------------------ greenlet segments
RECURSIVE CWLoop(_), NWLoop(_)

\* end of a _get_data call by greenlet g: release the DataWatch lock, then continue
GDRelease(s, g) ==
  LET s1 == [s EXCEPT !.dlock = "none"]
      s2 == IF s1.dwait # <<>> /\ ~s1.dnotif
            THEN [s1 EXCEPT !.dnotif = TRUE, !.runq = Append(@, <<"ln", "-">>)] ELSE s1
  IN IF g = "CW" THEN CWLoop(s2) ELSE [s2 EXCEPT !.gl[g] = G0]

\* `with self._run_lock:` then `self._retry(self._client.get, path, self._watcher)`
GDLocked(s, g) == Issue([s EXCEPT !.dlock = g, !.gl[g].pc = "get", !.gl[g].iv = s.ver], g)
GDEnter(s, g) ==
  IF s.dlock = "none" THEN GDLocked(s, g)
  ELSE [s EXCEPT !.gl[g].pc = "lock", !.dwait = Append(@, g)]

\* _data_changed(data, stat) with stat # None, for incarnation `inc` of the path
BeginWatch(s, g, inc) ==
  LET k == Len(s.cws) + 1 IN
  Issue([s EXCEPT !.watching = TRUE, !.winc = inc, !.gen = k,
                  !.cws = Append(@, FALSE), !.gl[g].pc = "gc", !.gl[g].k = k], g)
DataChangedStat(s, g, inc) ==
  IF ~s.watching \/ (FixDW /\ s.winc # inc) THEN BeginWatch(s, g, inc) ELSE GDRelease(s, g)

\* _data_changed(None, None)
DataChangedNone(s, g) ==
  LET s1 == [s EXCEPT !.watching = FALSE, !.gen = IF FixDW /\ ~NoInv THEN 0 ELSE @] IN
  IF FixPD /\ LazyEmpty /\ s1.members = <<>> THEN GDRelease([s1 EXCEPT !.nodes = {}], g)
  ELSE IF FixPD THEN GDRelease(OnSetChanged(s1, {}), g)
  ELSE GDRelease(SendAllRemoved(s1), g)

\* response to get(path, watcher): ver = incarnation (0: NoNodeError)
GetResp(s, g, v) ==
  IF v # 0
  THEN LET s1 == [s EXCEPT !.ver = v] IN
       IF s.gl[g].iv # v \/ ~s.ever
       THEN DataChangedStat([s1 EXCEPT !.ever = TRUE], g, v)
       ELSE GDRelease(s1, g)
  ELSE Issue([s EXCEPT !.gl[g].pc = "ex"], g)

FreeSG(s) == {x \in SGs : s.gl[x].pc = "dead"}

\* response to exists(path, watcher): v = incarnation or 0 (None)
ExResp(s, g, v) ==
  IF v # 0
  THEN \* self._client.handler.spawn(self._get_data); return
       IF FreeSG(s) = {} THEN [GDRelease(s, g) EXCEPT !.over = TRUE]
       ELSE LET x == IF "S1" \in FreeSG(s) THEN "S1" ELSE IF "S2" \in FreeSG(s) THEN "S2"
                     ELSE IF "S3" \in FreeSG(s) THEN "S3" ELSE "S4" IN
            GDRelease([s EXCEPT !.gl[x].pc = "start", !.runq = Append(@, <<"start", x>>)], g)
  ELSE LET s1 == [s EXCEPT !.ver = 0] IN
       IF s.gl[g].iv # 0 \/ ~s.ever
       THEN DataChangedNone([s1 EXCEPT !.ever = TRUE], g)
       ELSE GDRelease(s1, g)

\* the callback handed to ChildrenWatch k: with FixDW a superseded watch returns False
\* (and thereby stops itself) instead of reporting
ChildrenCb(s, k, children) ==
  IF FixDW /\ k # s.gen THEN [s EXCEPT !.cws[k] = TRUE] ELSE OnSetChanged(s, children)

\* response to the first get_children of ChildrenWatch k (inside _data_changed)
GcResp(s, g, ok, children) ==
  LET k == s.gl[g].k IN
  IF ok THEN GDRelease(ChildrenCb(s, k, children), g)
  ELSE GDRelease([s EXCEPT !.cws[k] = TRUE], g)

\* response to the get_children of ChildrenWatch k's watcher (callback worker)
CgcResp(s, ok, children) ==
  LET k == s.gl["CW"].k IN
  IF ok THEN CWLoop(ChildrenCb(s, k, children))
  ELSE CWLoop([s EXCEPT !.cws[k] = TRUE])

\* the callback worker: func = queue.get(); func()
CWRun(s, cb) ==
  IF cb[1] = "D" THEN GDEnter(s, "CW")
  ELSE IF s.cws[cb[2]] THEN CWLoop(s)     \* stopped watch: _get_children returns at once
  ELSE Issue([s EXCEPT !.gl["CW"].pc = "cgc", !.gl["CW"].k = cb[2]], "CW")
CWLoop(s) ==
  IF s.cbq = <<>> THEN [s EXCEPT !.gl["CW"] = [G0 EXCEPT !.pc = "idle"]]
  ELSE CWRun([s EXCEPT !.cbq = Tail(@), !.gl["CW"] = [G0 EXCEPT !.pc = "run"]], Head(s.cbq))

\* the notification worker
\* the callbacks of one batch, one at a time: `rest` = the events still to come (a Leave pops its member from
\* _members right before the call); a blocking callback parks the worker (pc "cb") with the rest
Blocks(e) == (e.e = "Join" /\ e.d \in bj) \/ (e.e = "Leave" /\ e.d \in bl)
RECURSIVE NWDeliver(_, _)
NWDeliver(s, evs) ==
  IF evs = <<>> THEN NWLoop([s EXCEPT !.nw = NW0])
  ELSE LET e == Head(evs)
           s1 == Emit(IF e.e = "Leave" THEN [s EXCEPT !.members = SelectSeq(@, LAMBDA m : m # e.m)] ELSE s, <<e>>)
       IN IF Blocks(e) THEN [s1 EXCEPT !.nw = [NW0 EXCEPT !.pc = "cb", !.rest = Tail(evs)]]
          ELSE NWDeliver(s1, Tail(evs))
NWFinish(s) ==
  LET got == s.nw.got
      mem1 == s.members \o SelectSeq(got, LAMBDA m : m \notin Range(s.members))
      rem == Sorted(s.nw.removed)
      leaving == SelectSeq(rem, LAMBDA m : m \in Range(mem1))
      evs == IF JoinsFirst THEN Flat(MapSeq(got, JoinEvs)) \o Flat(MapSeq(leaving, LeaveEvs))
             ELSE Flat(MapSeq(leaving, LeaveEvs)) \o Flat(MapSeq(got, JoinEvs))
  IN NWDeliver([s EXCEPT !.members = mem1], evs)
NWRead(s) == IF s.nw.todo = <<>> THEN NWFinish(s) ELSE Issue([s EXCEPT !.nw.pc = "rd"], "NW")
NWBatch(s, b) ==
  IF FixVM
  THEN LET cur == Range(s.members) IN
       NWRead([s EXCEPT !.nw = [pc |-> "run", removed |-> cur \ b.kids, todo |-> Sorted(b.kids \ cur),
                                got |-> <<>>, kids |-> b.kids]])
  ELSE NWRead([s EXCEPT !.nw = [pc |-> "run", removed |-> b.removed, todo |-> Sorted(b.new),
                                got |-> <<>>, kids |-> {}]])
NWLoop(s) ==
  IF s.nq = <<>> THEN [s EXCEPT !.nw = NW0]
  ELSE NWBatch([s EXCEPT !.nq = Tail(@)], Head(s.nq))
\* response to get(member): present or NoNodeError (skipped)
NWResp(s, ok) ==
  LET m == Head(s.nw.todo) IN
  NWRead([s EXCEPT !.nw.todo = Tail(@), !.nw.got = IF ok THEN Append(@, m) ELSE @])

\* ------------------------------------------------------------------ the loop cascade
RunItem(s, it) ==
  CASE it[1] = "start" -> GDEnter(s, it[2])
    [] it[1] = "cbq" -> LET s1 == [s EXCEPT !.cbnotif = FALSE] IN
                        IF s1.gl["CW"].pc = "idle" THEN CWLoop(s1) ELSE s1
    [] it[1] = "nwq" -> LET s1 == [s EXCEPT !.nwnotif = FALSE] IN
                        IF s1.nw.pc = "qget" THEN NWLoop(s1) ELSE s1
    [] it[1] = "ln" -> LET s1 == [s EXCEPT !.dnotif = FALSE] IN
                       IF s1.dlock = "none" /\ s1.dwait # <<>>
                       THEN GDLocked([s1 EXCEPT !.dwait = Tail(@)], Head(s1.dwait))
                       ELSE s1
RECURSIVE Cascade(_)
Cascade(s) == IF s.runq = <<>> THEN s
              ELSE Cascade(RunItem([s EXCEPT !.runq = Tail(@)], Head(s.runq)))

\* ------------------------------------------------------------------ initial state
\* after `gevent.spawn(provider.Initialize, on_join, on_leave)` has run to its first
\* yield: callback worker and notification worker parked on their queues, the
\* constructing greenlet parked in _monitor's exists().
Init ==
  /\ parent = FALSE /\ pinc = 0 /\ kids = {} /\ dataW = FALSE /\ childW = <<>>
  /\ c = [cbq |-> <<>>, cbnotif |-> FALSE,
          ver |-> 0, ever |-> FALSE, dlock |-> "none", dwait |-> <<>>, dnotif |-> FALSE,
          cws |-> <<>>,
          gl |-> [g \in GIds |-> IF g = "IG" THEN [G0 EXCEPT !.pc = "mex"]
                                 ELSE IF g = "CW" THEN [G0 EXCEPT !.pc = "idle"] ELSE G0],
          nodes |-> {}, members |-> <<>>, watching |-> FALSE, winc |-> 0, gen |-> 0,
          nq |-> <<>>, nwnotif |-> FALSE, nw |-> NW0,
          reqs |-> <<"IG">>, runq |-> <<>>, out |-> <<>>, over |-> FALSE]
  /\ rj \in SUBSET Values /\ rl \in SUBSET Values
  /\ Cardinality(rj) + Cardinality(rl) <= MaxRaise
  /\ bj \in SUBSET Values /\ bl \in SUBSET Values
  /\ Cardinality(bj) + Cardinality(bl) <= MaxBlock
  /\ envn = 0
  /\ lastAct = <<"Init", 0>>
  /\ viol = "ok"
  /\ AInit

\* ------------------------------------------------------------------ steps
\* nothing in flight: no request pending and no consumer callback still running
Quiescent(s) == s.reqs = <<>> /\ s.nw.pc # "cb"

\* fold the tree event and the callbacks of the cascade through ZkAbs, then the
\* quiescence check
Judge(pre, s) ==
  LET r == AFold(ast, viol, pre \o s.out)
      q == IF Quiescent(s) THEN AQCheck(r[1], APresent(r[1])) ELSE "ok"
  IN /\ ast' = r[1]
     /\ viol' = IF r[2] = "ok" THEN q ELSE r[2]

Fresh == [c EXCEPT !.out = <<>>]

CbsOf(ks) == [i \in DOMAIN ks |-> <<"C", ks[i]>>]
DCb == IF dataW THEN <<<<"D", 0>>>> ELSE <<>>

PCreate ==
  /\ ~parent /\ envn < MaxEnv /\ pinc < MaxInc
  /\ parent' = TRUE /\ pinc' = pinc + 1 /\ dataW' = FALSE
  /\ UNCHANGED <<kids, childW>>
  /\ c' = Cascade(Dispatch(Fresh, DCb))
  /\ Judge(<<Mk("PCreate", 0, 0)>>, c')
  /\ envn' = envn + 1 /\ lastAct' = <<"PCreate", 0>>
  /\ UNCHANGED pol

PDelete ==
  /\ parent /\ kids = {} /\ envn < MaxEnv
  /\ parent' = FALSE /\ dataW' = FALSE /\ childW' = <<>>
  /\ UNCHANGED <<kids, pinc>>
  /\ c' = Cascade(Dispatch(Fresh, DCb \o CbsOf(childW)))
  /\ Judge(<<Mk("PDelete", 0, 0)>>, c')
  /\ envn' = envn + 1 /\ lastAct' = <<"PDelete", 0>>
  /\ UNCHANGED pol

ZCreate(m) ==
  /\ parent /\ m \notin kids /\ envn < MaxEnv
  /\ \A k \in kids : Data[k] # Data[m]     \* no two equal registrations alive at once (see ZkAbs)
  /\ kids' = kids \cup {m} /\ childW' = <<>>
  /\ UNCHANGED <<parent, pinc, dataW>>
  /\ c' = Cascade(Dispatch(Fresh, CbsOf(childW)))
  /\ Judge(<<Mk("ZCreate", m, Data[m])>>, c')
  /\ envn' = envn + 1 /\ lastAct' = <<"ZCreate", m>>
  /\ UNCHANGED pol

ZDelete(m) ==
  /\ m \in kids /\ envn < MaxEnv
  /\ kids' = kids \ {m} /\ childW' = <<>>
  /\ UNCHANGED <<parent, pinc, dataW>>
  /\ c' = Cascade(Dispatch(Fresh, CbsOf(childW)))
  /\ Judge(<<Mk("ZDelete", m, Data[m])>>, c')
  /\ envn' = envn + 1 /\ lastAct' = <<"ZDelete", m>>
  /\ UNCHANGED pol

\* the server answers the oldest request of the session
Serve ==
  /\ c.reqs # <<>>
  /\ LET g == Head(c.reqs)
         s0 == [Fresh EXCEPT !.reqs = Tail(@)]
     IN IF g = "NW"
        THEN /\ c' = Cascade(NWResp(s0, parent /\ Head(s0.nw.todo) \in kids))
             /\ UNCHANGED <<dataW, childW>>
        ELSE LET pc == s0.gl[g].pc IN
             CASE pc = "mex" -> /\ c' = Cascade(GDEnter(s0, g))
                                /\ UNCHANGED <<dataW, childW>>
               [] pc = "get" -> /\ c' = Cascade(GetResp(s0, g, IF parent THEN pinc ELSE 0))
                                /\ dataW' = (dataW \/ parent)
                                /\ UNCHANGED childW
               [] pc = "ex" ->  /\ c' = Cascade(ExResp(s0, g, IF parent THEN pinc ELSE 0))
                                /\ dataW' = TRUE
                                /\ UNCHANGED childW
               [] pc = "gc" ->  /\ c' = Cascade(GcResp(s0, g, parent, kids))
                                /\ childW' = IF parent /\ s0.gl[g].k \notin Range(childW)
                                             THEN Append(childW, s0.gl[g].k) ELSE childW
                                /\ UNCHANGED dataW
               [] pc = "cgc" -> /\ c' = Cascade(CgcResp(s0, parent, kids))
                                /\ childW' = IF parent /\ s0.gl[g].k \notin Range(childW)
                                             THEN Append(childW, s0.gl[g].k) ELSE childW
                                /\ UNCHANGED dataW
  /\ Judge(<<>>, c')
  /\ lastAct' = <<"Serve", 0>>
  /\ UNCHANGED <<parent, pinc, kids, pol, envn>>

\* the blocked consumer callback returns (raising now, if it is a raising one: that event is the head of `rest`)
Return ==
  /\ c.nw.pc = "cb"
  /\ c' = Cascade(NWDeliver([Fresh EXCEPT !.nw.pc = "run"], c.nw.rest))
  /\ Judge(<<>>, c')
  /\ lastAct' = <<"Return", 0>>
  /\ UNCHANGED <<svars, pol, envn>>

\* weaker design only: the time allowed for a callback is up, the Timeout passes every `except Exception`,
\* the worker greenlet is dead (nothing reads the notification queue any more)
Expire ==
  /\ CbTimeout /\ c.nw.pc = "cb"
  /\ c' = [Fresh EXCEPT !.nw = [NW0 EXCEPT !.pc = "dead"]]
  /\ Judge(<<>>, c')
  /\ lastAct' = <<"Expire", 0>>
  /\ UNCHANGED <<svars, pol, envn>>

Next == PCreate \/ PDelete \/ Serve \/ Return \/ Expire \/ \E m \in Names : ZCreate(m) \/ ZDelete(m)

Spec == Init /\ [][Next]_vars

\* ------------------------------------------------------------------ properties
NoViolation == viol = "ok"
Bounded == ~c.over
View == <<svars, [c EXCEPT !.out = <<>>], pol, envn, viol, ast>>

\* when no request is pending the client is at rest
Structural ==
  /\ c.runq = <<>>
  /\ Quiescent(c) =>
       /\ c.cbq = <<>> /\ (c.nw.pc = "qget" => c.nq = <<>>) /\ c.gl["CW"].pc = "idle" /\ c.nw.pc \in {"qget", "dead"}
       /\ c.dlock = "none" /\ c.dwait = <<>>
       /\ \A g \in SGs \cup {"IG"} : c.gl[g].pc = "dead"
  /\ (c.dlock # "none") => c.gl[c.dlock].pc \in {"get", "ex", "gc"}
  /\ \A i \in DOMAIN c.dwait : c.gl[c.dwait[i]].pc = "lock"
  /\ Len(c.reqs) = Cardinality(Range(c.reqs))
  /\ Range(c.members) \subseteq Names
  /\ Len(c.members) = Cardinality(Range(c.members))
=============================================================================
