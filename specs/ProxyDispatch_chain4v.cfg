SPECIFICATION Spec
CONSTANTS
  NCalls = 4
  Design = "chain"
  SharedClosure = FALSE
  Kinds = {"value"}
  PeelLosesError = FALSE
INVARIANT NoViolation
INVARIANT QuiescentOK
INVARIANT TypeOK
CHECK_DEADLOCK FALSE
