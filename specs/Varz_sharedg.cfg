SPECIFICATION Spec
CONSTANTS
  Kinds <- K_gg
  Tuples <- T2
  Amts = {1}
  GVals = {1, 2}
  SVals = {1}
  Cap = 2
  MaxOps = 3
  Sels = {"default", "tuple"}
  SourceEq = TRUE
  Interleave = FALSE
  MaxAge = 2
  MaxNow = 0
  Ticks = {1}
  Design = "shared"
VIEW View
INVARIANT NoGaugeViolation
CHECK_DEADLOCK FALSE
