----------------------------- MODULE BalancerAbs -----------------------------
(***************************************************************************)
(* C03, C04, C05 -- a load balancer as its neighbours see it               *)
(* (property-level oracle for scales.loadbalancer.{heap,aperture,base}).   *)
(*                                                                         *)
(* The machine is functional: its whole state is one record `a`, an event  *)
(* is a record `ev` with the fields the harness logs (the same records are *)
(* produced by the code-shaped models HeapBalancer / LbBase), and          *)
(*    CheckOf(a, ev)  = "ok" or the name of the first failing clause,      *)
(*                      evaluated in the state *before* the event;         *)
(*    UpdOf(a, ev)    = the unguarded successor state;                     *)
(*    Run(a, evs)     = fold of both over a sequence of events.            *)
(* One action of a code-shaped model (one code segment) emits several      *)
(* observable events, hence the functional style.                          *)
(*                                                                         *)
(* State (only what the three property statements talk about):             *)
(*   S       reference server set: the initial list, then joins and leaves *)
(*           applied in the order in which the notifications ARRIVED       *)
(*   loaded  the balancer has been handed the initial member list          *)
(*   node    one entry per node object = per channel the balancer created  *)
(*           (a re-joined endpoint gets a new node; the old one may still   *)
(*           be draining):                                                 *)
(*             ep      endpoint of the node                                *)
(*             out     REFERENCE outstanding count: dispatched to the node *)
(*                     and not yet completed (any completion kind)         *)
(*             left    a leave of ep has been processed after the node     *)
(*                     was created (the node is a removed member)          *)
(*             ll      it still had outstanding requests at that moment    *)
(*             due     it had to be closed at once (idle or marked down)   *)
(*             closed  number of Close() calls seen on its channel         *)
(*             dn      balancer's down mark as of the last projection      *)
(*                     (1 down, 0 up, -1 unknown: projection unavailable)  *)
(*                                                                         *)
(* Events (field e = name). Channel states: 1 Idle, 2 Open, 3 Busy,        *)
(* 4 Closed.                                                               *)
(*   Join{ep} Leave{ep}        a server-set notification ARRIVES           *)
(*   JoinDone{ep} LeaveDone{ep}  the balancer's callback returned          *)
(*   Snap{}                    the provider returned the initial list      *)
(*   Create{n,ep}              the balancer asked the factory for a channel *)
(*   Chan{n,st} OpenDone{n,ok} Held{r} Late{r,n}  environment / no-ops      *)
(*   OpenRaised{n}             Open() of n's channel raised synchronously   *)
(*           (the channel is Closed); diagnostic no-op                      *)
(*   Raised{op} Hang{}         the balancer raised into its caller / spun   *)
(*           (diagnostic no-ops: the rest of the history is still judged)  *)
(*   Tmo{r}                    a request parked behind the balancer's open  *)
(*           timed out (completed) before it was dispatched                *)
(*   Disp{r,n,err,st,fresh,hasU,U[,dead]}  r was handed to node n (n = -1:  *)
(*           it failed at once, err = "nomembers" | "other" | "none");     *)
(*           U = <<n, st, out>> for every member the balancer is using,    *)
(*           sampled just before the choice; st = state of n's channel;    *)
(*           fresh = 1 iff n's channel was created during this dispatch;   *)
(*           logged at the position of the choice: what the same dispatch  *)
(*           causes afterwards (aperture adjustment: closes, requests      *)
(*           failed synchronously by such a close) follows it              *)
(*   Comp{r,n,kind}            first completion of r (reply, error,        *)
(*           timeout, fault, failfast, closed = failed synchronously by    *)
(*           the channel's Close()), logged before the stack unwinds        *)
(*   CloseSeen{n[,x]}          Close() called on n's channel (x = 1: the   *)
(*           call closed the channel and then raised; diagnostic only)     *)
(*   End{hasL,L,neg}           end of a step; L = <<n, ld, rm, dn>> is the *)
(*           optional internal projection: ld = load attributed to the     *)
(*           node (Idle and Penalty removed); neg = number of              *)
(*           'Decrementing load below Zero' warnings logged so far         *)
(*   Q{hasE,elig}              quiescent point (nothing can run at this    *)
(*           instant); elig = endpoints the balancer holds (heap + idle),  *)
(*           optional internal projection                                  *)
(*   Probe{got,full}           endpoints that received traffic under a     *)
(*           saturating probe with every channel open                      *)
(***************************************************************************)
EXTENDS Integers, Sequences, FiniteSets, TLC, IOUtils, SequencesExt

PropSel == IF "PROP" \in DOMAIN IOEnv THEN IOEnv.PROP ELSE "all"
On(p) == PropSel = "all" \/ PropSel = p

OPEN == 2

AInit0(kind, s0) == [kind |-> kind, S |-> s0, loaded |-> FALSE, node |-> <<>>]

Nodes(a) == DOMAIN a.node
NewNode(ep) == [ep |-> ep, out |-> 0, left |-> FALSE, ll |-> FALSE, due |-> FALSE,
                closed |-> 0, dn |-> 0]

\* ------------------------------------------------------------------ membership
\* Notifications update the reference set when they arrive.  (The provider's
\* snapshot is its set at some instant after Initialize and every later change
\* is notified, so replaying all notifications over the snapshot yields S.)
JoinUpd(a, ev)  == [a EXCEPT !.S = @ \cup {ev.ep}]
LeaveUpd(a, ev) == [a EXCEPT !.S = @ \ {ev.ep}]

SnapUpd(a, ev) == [a EXCEPT !.loaded = TRUE]

\* C05.initGate: nothing is installed before the initial list has been handed over.
CreateCheck(a, ev) ==
  IF ev.n \in Nodes(a) THEN "harness.freshNode"
  ELSE IF On("C05") /\ ~a.loaded THEN "C05.initGate"
  ELSE "ok"
CreateUpd(a, ev) == [a EXCEPT !.node = @ @@ (ev.n :> NewNode(ev.ep))]

\* nodes of endpoint ep that are not yet removed members
Mine(a, ep) == {n \in Nodes(a) : a.node[n].ep = ep /\ ~a.node[n].left}

\* C04.closeOnDrain (not before): a loaded node known to be up was closed while
\* the leave was being processed.
LeaveDoneCheck(a, ev) ==
  IF On("C04") /\ \E n \in Mine(a, ev.ep) :
       a.node[n].out > 0 /\ a.node[n].closed > 0 /\ a.node[n].dn = 0
  THEN "C04.closeOnDrain" ELSE "ok"
LeaveDoneUpd(a, ev) ==
  [a EXCEPT !.node = [n \in Nodes(a) |->
     IF n \in Mine(a, ev.ep)
     THEN [a.node[n] EXCEPT !.left = TRUE, !.ll = (a.node[n].out > 0),
                            !.due = (a.node[n].out = 0 \/ a.node[n].dn = 1)]
     ELSE a.node[n]]]

\* ------------------------------------------------------------------ dispatch
UIds(ev)  == {ev.U[i][1] : i \in DOMAIN ev.U}
UOpen(ev) == {i \in DOMAIN ev.U : ev.U[i][2] = OPEN}
\* state of the chosen node's channel: its entry in U if it has one
StOf(ev)  == IF ev.n \in UIds(ev)
             THEN ev.U[CHOOSE i \in DOMAIN ev.U : ev.U[i][1] = ev.n][2]
             ELSE ev.st

\* Requests outstanding at the MEMBER (endpoint) of node n: C03 speaks of members, and a member for
\* which the balancer holds several nodes at once (all of them in U) has the requests of all of them
\* outstanding.  A node that has left the heap (a removed member still draining, an endpoint moved
\* back to the idle set) is not in U and does not count for the node that replaced it.
MOut(a, ev, n) ==
  FoldLeft(LAMBDA acc, u : IF u[1] # n /\ a.node[u[1]].ep = a.node[n].ep THEN acc + a.node[u[1]].out ELSE acc,
           a.node[n].out, ev.U)

DispCheck(a, ev) ==
  IF ev.n # -1 /\ ev.n \notin Nodes(a) THEN "harness.dispKnownNode"
  ELSE IF ev.hasU = 1 /\ \E i \in DOMAIN ev.U : ev.U[i][1] \notin Nodes(a) THEN "harness.uKnownNode"
  ELSE IF ev.hasU = 1 /\ \E i \in DOMAIN ev.U : ev.U[i][3] # a.node[ev.U[i][1]].out THEN "harness.outAgree"
  \* C03.noMembers: with no members the request fails at once with the no-members
  \* error (an aperture may instead admit a member while choosing: fresh = 1).
  ELSE IF On("C03") /\ ev.hasU = 1 /\ Len(ev.U) = 0
          /\ ~((ev.n = -1 /\ ev.err = "nomembers") \/ (ev.n # -1 /\ ev.fresh = 1))
       THEN "C03.noMembers"
  \* C03.member: the chosen node is one the balancer is using (or admitted just now).
  ELSE IF On("C03") /\ ev.hasU = 1 /\ ev.n # -1 /\ ev.n \notin UIds(ev) /\ ev.fresh # 1
       THEN "C03.member"
  \* C03.openLeast: if some member in use is open, the chosen one is open and no
  \* open member in use has fewer outstanding requests (counted per member, see MOut).
  \* (When none is open the statement does not prescribe the outcome.)
  ELSE IF On("C03") /\ ev.hasU = 1 /\ UOpen(ev) # {}
          /\ ~(/\ ev.n # -1
               /\ StOf(ev) = OPEN
               /\ \A i \in UOpen(ev) : MOut(a, ev, ev.n) <= MOut(a, ev, ev.U[i][1]))
       THEN "C03.openLeast"
  \* C04.noNewTraffic: a removed member receives no new request.
  ELSE IF On("C04") /\ ev.n # -1 /\ a.node[ev.n].left THEN "C04.noNewTraffic"
  ELSE "ok"

\* A request that had already completed when it was dispatched (dead = 1: it timed out while
\* parked behind the balancer's open) is not "dispatched and not yet completed": it never
\* counts as outstanding, so any load attributed for it breaks C04.conserved.
IsDead(ev) == "dead" \in DOMAIN ev /\ ev.dead = 1
DispUpd(a, ev) == IF ev.n = -1 \/ IsDead(ev) THEN a ELSE [a EXCEPT !.node[ev.n].out = @ + 1]

CompCheck(a, ev) ==
  IF ev.n \notin Nodes(a) THEN "harness.compKnownNode"
  ELSE IF a.node[ev.n].out <= 0 THEN "harness.compOutstanding"
  ELSE "ok"
CompUpd(a, ev) == [a EXCEPT !.node[ev.n].out = @ - 1]

\* C04.closeOnDrain (not before): a removed member that was loaded and up when it
\* left is not closed while requests are still outstanding.
CloseSeenCheck(a, ev) ==
  IF ev.n \notin Nodes(a) THEN "harness.closeKnownNode"
  ELSE IF On("C04") /\ a.node[ev.n].left /\ a.node[ev.n].out > 0 /\ ~a.node[ev.n].due
       THEN "C04.closeOnDrain"
  ELSE "ok"
CloseSeenUpd(a, ev) == [a EXCEPT !.node[ev.n].closed = @ + 1]

\* ------------------------------------------------------------------ end of a step
Unclosed(a) == {n \in Nodes(a) : a.node[n].left /\ a.node[n].closed = 0
                                 /\ (a.node[n].due \/ a.node[n].out = 0)}
EndCheck(a, ev) ==
  IF ev.hasL = 1 /\ \E i \in DOMAIN ev.L : ev.L[i][1] \notin Nodes(a) THEN "harness.projKnownNode"
  \* C04.nonNegative: the below-zero path was never taken, no load below idle.
  ELSE IF On("C04") /\ (ev.neg > 0 \/ (ev.hasL = 1 /\ \E i \in DOMAIN ev.L : ev.L[i][2] < 0))
       THEN "C04.nonNegative"
  \* C04.conserved: attributed load = reference outstanding count, for every node
  \* object the projection reports (members and removed, draining nodes).
  ELSE IF On("C04") /\ ev.hasL = 1 /\ \E i \in DOMAIN ev.L : ev.L[i][2] # a.node[ev.L[i][1]].out
       THEN "C04.conserved"
  ELSE "ok"

EndUpd(a, ev) ==
  IF ev.hasL = 1
  THEN [a EXCEPT !.node = [n \in Nodes(a) |->
         IF \E i \in DOMAIN ev.L : ev.L[i][1] = n
         THEN [a.node[n] EXCEPT !.dn = ev.L[CHOOSE i \in DOMAIN ev.L : ev.L[i][1] = n][4]]
         ELSE a.node[n]]]
  ELSE [a EXCEPT !.node = [n \in Nodes(a) |-> [a.node[n] EXCEPT !.dn = -1]]]

\* ------------------------------------------------------------------ quiescent points
\* C05.initGate: before the initial list is handed over the balancer holds nothing;
\* C05.membership: afterwards, at every quiescent point, it holds exactly S.
\* C04.closeIdle / C04.closeOnDrain (not later): once nothing more can run at this
\* instant, a removed member is closed if it was idle or marked down when it left, or
\* has drained ("at once" / "when its last outstanding request completes").
QCheck(a, ev) ==
  IF On("C05") /\ ev.hasE = 1 /\ ~a.loaded /\ Len(ev.elig) > 0 THEN "C05.initGate"
  ELSE IF On("C05") /\ ev.hasE = 1 /\ a.loaded /\ ToSet(ev.elig) # a.S THEN "C05.membership"
  ELSE IF On("C04") /\ Unclosed(a) # {}
       THEN IF \E n \in Unclosed(a) : a.node[n].due \/ ~a.node[n].ll
            THEN "C04.closeIdle" ELSE "C04.closeOnDrain"
  ELSE "ok"

\* observable cross-check of membership: who gets traffic under saturating load
ProbeCheck(a, ev) ==
  IF On("C05") /\ ~(ToSet(ev.got) \subseteq a.S) THEN "C05.membership"
  ELSE IF On("C05") /\ a.kind = "heap" /\ ev.full = 1 /\ ToSet(ev.got) # a.S THEN "C05.membership"
  ELSE "ok"

\* ------------------------------------------------------------------ the machine
NoOps == {"JoinDone", "Chan", "OpenDone", "OpenRaised", "Held", "Late", "Raised", "Hang", "Tmo"}

CheckOf(a, ev) ==
  CASE ev.e = "Join" -> "ok"
    [] ev.e = "Leave" -> "ok"
    [] ev.e = "Snap" -> "ok"
    [] ev.e = "Create" -> CreateCheck(a, ev)
    [] ev.e = "LeaveDone" -> LeaveDoneCheck(a, ev)
    [] ev.e = "Disp" -> DispCheck(a, ev)
    [] ev.e = "Comp" -> CompCheck(a, ev)
    [] ev.e = "CloseSeen" -> CloseSeenCheck(a, ev)
    [] ev.e = "End" -> EndCheck(a, ev)
    [] ev.e = "Q" -> QCheck(a, ev)
    [] ev.e = "Probe" -> ProbeCheck(a, ev)
    [] ev.e \in NoOps -> "ok"
    [] OTHER -> "harness.unknownEvent"

UpdOf(a, ev) ==
  CASE ev.e = "Join" -> JoinUpd(a, ev)
    [] ev.e = "Leave" -> LeaveUpd(a, ev)
    [] ev.e = "Snap" -> SnapUpd(a, ev)
    [] ev.e = "Create" -> CreateUpd(a, ev)
    [] ev.e = "LeaveDone" -> LeaveDoneUpd(a, ev)
    [] ev.e = "Disp" -> DispUpd(a, ev)
    [] ev.e = "Comp" -> CompUpd(a, ev)
    [] ev.e = "CloseSeen" -> CloseSeenUpd(a, ev)
    [] ev.e = "End" -> EndUpd(a, ev)
    [] OTHER -> a

\* fold a sequence of events; stops at the first failing clause
Run(a, evs) ==
  FoldLeft(LAMBDA acc, ev :
             IF acc.v # "ok" THEN acc
             ELSE LET c == CheckOf(acc.a, ev)
                  IN IF c = "ok" THEN [a |-> UpdOf(acc.a, ev), v |-> "ok"]
                     ELSE [a |-> acc.a, v |-> c],
           [a |-> a, v |-> "ok"], evs)
=============================================================================
