SPECIFICATION Spec
CONSTANTS
  MaxNodes = 3
  Eps = {1,2}
  InitN = 2
  MaxLoad = 2
  P = 100
  Repaired = TRUE
  Faults = TRUE
  Membership = TRUE
  TrackLate = TRUE
  Noise = TRUE
  Aperture = FALSE
  MinSize = 1
  StaleSize = FALSE
  Light = FALSE
INVARIANT NoViolation
INVARIANT HeapOrder
INVARIANT Structural
CHECK_DEADLOCK FALSE
