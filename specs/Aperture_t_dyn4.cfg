SPECIFICATION Spec
CONSTANTS
  Members = {1, 2, 3, 4}
  Initial = {1, 2, 3}
  MinSize = 2
  MaxSize = 3
  MinL = 1
  MaxL = 3
  SC = 2
  MaxOut = 2
  MaxOpens = 4
  Jitter = FALSE
  Dynamic = TRUE
  EnvBudget = 2
  FlipStates = {"Closed", "Busy"}
  SteadyK = 0
  ChurnGetFirst = FALSE
CONSTRAINT Bounded
INVARIANT NoViolation
INVARIANT Partition
INVARIANT QuietOk
INVARIANT NoPendingLeak
INVARIANT NeverEmptyWithIdle
INVARIANT Structural
CHECK_DEADLOCK FALSE
