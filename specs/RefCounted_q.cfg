SPECIFICATION Spec
CONSTANTS
  Holders = {1, 2, 3}
  Keys = {1, 2}
  MaxLen = 7
  MaxSinks = 4
INVARIANT NoViolation
INVARIANT Structural
CHECK_DEADLOCK FALSE
