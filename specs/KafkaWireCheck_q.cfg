SPECIFICATION Spec
CONSTANTS
  Topics <- TopicsQ
  Partitions <- PartsQ
  AcksSet <- AcksQ
  PayloadBytes = {0, 255}
  MaxPayloads = 2
  Corrs <- CorrsQ
  Variant = "fixed"
INVARIANT RoundTrip
INVARIANT ChecksAccept
INVARIANT ChecksRejectCorruption
INVARIANT ImplAgrees
CHECK_DEADLOCK FALSE
