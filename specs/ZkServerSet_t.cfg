SPECIFICATION Spec
CONSTANTS
  Names = {1, 2}
  MaxEnv = 10
  MaxInc = 4
  MaxRaise = 2
INVARIANT NoViolation
INVARIANT Structural
INVARIANT Bounded
VIEW View
CHECK_DEADLOCK FALSE
