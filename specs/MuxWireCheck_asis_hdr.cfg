SPECIFICATION Spec
CONSTANTS
  Tags <- NoTags
  KeyLen = 0
  ValLen = 0
  HiBytes <- HiQuick
  Variant = "asis"
INVARIANT ImplAgrees
CHECK_DEADLOCK FALSE
