---------------------------- MODULE ApertureTrace ----------------------------
(* Conformance of the real ApertureBalancerSink with the code-shaped model     *)
(* Aperture.tla (implementation-level trace validation, batched).              *)
(* A trace = initial projection P0 + steps; a step = one driver operation on    *)
(* the real balancer followed by a run of the loop to quiescence, with the      *)
(* projection P of the real object afterwards:                                  *)
(*   S, act, idle, pend (lists of endpoints), ch/dn/ld (aligned with act),      *)
(*   total, drain, avgLo/avgHi (floor/ceiling of _ema.value * sc), einit,       *)
(*   opEp/opLive (Open() results in flight: endpoint, node still in the heap).  *)
(* The step is accepted iff SOME successor of the model operation (any         *)
(* admissible resolution of the abstracted heap order), run to an empty run     *)
(* queue, has exactly this projection.  A mismatch is DRIFT ("drift.<op>"),     *)
(* never a property verdict.  The nondeterministic average of the model is      *)
(* pinned to the recorded one (which must lie in the model's EmaSet).           *)
EXTENDS Aperture, Json, IOUtils

Traces == ndJsonDeserialize(IOEnv.TRACE_FILE)

VARIABLES tid, l, verdict
tvars == <<tid, l, verdict>>

Ev == Traces[tid].ev
TCfg == Traces[tid].cfg

SetOf(seq) == {seq[x] : x \in DOMAIN seq}
ChName(n) == CASE n = 1 -> "Idle" [] n = 2 -> "Open" [] n = 3 -> "Busy" [] OTHER -> "Closed"
IdxOf(seq, e) == CHOOSE x \in DOMAIN seq : seq[x] = e

StateOf(P) ==
  [S |-> SetOf(P.S), act |-> SetOf(P.act),
   ch |-> [e \in Members |-> IF e \in SetOf(P.act) THEN ChName(P.ch[IdxOf(P.act, e)]) ELSE "Idle"],
   dn |-> [e \in Members |-> IF e \in SetOf(P.act) THEN P.dn[IdxOf(P.act, e)] = 1 ELSE FALSE],
   ld |-> [e \in Members |-> IF e \in SetOf(P.act) THEN P.ld[IdxOf(P.act, e)] ELSE 0],
   drain |-> P.drain, idle |-> SetOf(P.idle), pend |-> SetOf(P.pend), total |-> P.total,
   avg |-> P.avgLo, einit |-> P.einit = 1,
   opens |-> {[id |-> x, ep |-> P.opEp[x], live |-> P.opLive[x] = 1, stages |-> <<>>] : x \in DOMAIN P.opEp},
   runq |-> <<>>, jpc |-> "idle", jep |-> 0, overflow |-> FALSE, env |-> 0]

Match(s, P) ==
  /\ s.runq = <<>>
  /\ s.S = SetOf(P.S) /\ s.act = SetOf(P.act) /\ s.idle = SetOf(P.idle) /\ s.pend = SetOf(P.pend)
  /\ s.total = P.total /\ s.drain = P.drain
  /\ \A x \in DOMAIN P.act :
       /\ s.ch[P.act[x]] = ChName(P.ch[x])
       /\ s.dn[P.act[x]] = (P.dn[x] = 1)
       /\ s.ld[P.act[x]] = P.ld[x]
  /\ Cardinality(s.opens) = Len(P.opEp)
  /\ {<<o.ep, o.live>> : o \in s.opens} = {<<P.opEp[x], P.opLive[x] = 1>> : x \in DOMAIN P.opEp}
  /\ s.einit = (P.einit = 1)
  /\ s.einit => s.avg = P.avgLo

RECURSIVE Closure(_)
Closure(X) ==
  IF \A s \in X : s.runq = <<>> THEN X
  ELSE Closure(UNION {IF s.runq = <<>> THEN {s} ELSE RunOneSet(s) : s \in X})

Results(e) ==
  LET PV(v) == v = e.P.avgLo
      HV(v) == e.P.avgHi
  IN CASE e.op = "Disp" -> IF Size(st) = 0 THEN {st} ELSE {d.r.s : d \in DispatchSetP(st, PV, HV)}
       [] e.op = "Put" -> IF e.live = 1
                          THEN IF e.m \in st.act /\ st.ld[e.m] > 0 THEN {r.s : r \in PutSetP(st, e.m, PV, HV)} ELSE {}
                          ELSE IF st.drain > 0 THEN {r.s : r \in PutDrainSetP(st, PV, HV)} ELSE {}
       [] e.op = "Join" -> IF e.m \in st.S THEN {st} ELSE {JoinRes(st, e.m)}
       [] e.op = "Leave" -> LeaveSet(st, e.m)
       [] e.op = "Flip" -> IF e.live = 1 /\ e.m \in st.act THEN {[st EXCEPT !.ch[e.m] = ChName(e.st)]} ELSE {st}
       [] e.op = "OpenDone" -> {OpenDoneRes(st, o, e.ok = 1) : o \in {p \in st.opens : p.ep = e.m /\ p.live = (e.live = 1)}}
       [] e.op = "Tick" -> {st} \cup (IF st.jpc = "idle" /\ st.idle # {} THEN JitterSet(st) ELSE {})
       [] OTHER -> {}

TInit == /\ tid \in 1..Len(Traces)
         /\ l = 1
         /\ verdict = "ok"
         /\ acfg = [minS |-> TCfg.minS, maxS |-> TCfg.maxS, minL |-> TCfg.minL, maxL |-> TCfg.maxL,
                    sc |-> TCfg.sc, win |-> TCfg.win, tol |-> TCfg.tol, btol |-> TCfg.btol,
                    ref |-> 0, rtol |-> 0]
         /\ ab = AState({}, 0, 0, 0)
         /\ viol = "ok"
         /\ st = StateOf(Traces[tid].P0)

TNext == /\ verdict = "ok"
         /\ l <= Len(Ev)
         /\ LET e == Ev[l]
                good == {s \in Closure(Results(e)) : Match(s, e.P)}
            IN IF good # {}
               THEN /\ st' \in good
                    /\ l' = l + 1 /\ verdict' = "ok"
               ELSE /\ verdict' = "drift." \o e.op /\ l' = l /\ UNCHANGED st
         /\ UNCHANGED <<tid, ab, acfg, viol>>

TSpec == TInit /\ [][TNext]_<<vars, tvars>>

Done == verdict # "ok" \/ l > Len(Ev)
Report == Done => PrintT(<<"V", tid, l - 1, verdict>>)
=============================================================================
