SPECIFICATION Spec
CONSTANTS
  Eps = {e1, e2}
  MaxNotes = 4
  None = None
  Calls = {}
  JoinWaits = TRUE
  PopFirst = FALSE
  BadClose = {1, 2, 3, 5, 8}
  GateBySubscription = FALSE
SYMMETRY Perms
INVARIANT QuietOK
CHECK_DEADLOCK FALSE
