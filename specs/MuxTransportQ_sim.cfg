SPECIFICATION QSpec
CONSTANTS
  Reqs = {1, 2, 3, 4, 5}
  MaxTag = 8
  FixRelease = TRUE
  FixSent = TRUE
  MaxStray = 3
INVARIANT NoViolation
INVARIANT PoolSane
CHECK_DEADLOCK FALSE
