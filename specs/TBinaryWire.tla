---------------------------- MODULE TBinaryWire ----------------------------
(***************************************************************************)
(* C14 -- reference functions for framed Thrift (strict TBinaryProtocol)   *)
(* over byte sequences (Seq(0..255)), written from the protocol            *)
(* description, independently of scales and of the Thrift library:         *)
(*                                                                         *)
(*   * two's-complement big-endian integers, UTF-8 from code points;       *)
(*   * EncVal: typed value -> bytes (bool, i32, i64, string, struct, list);*)
(*   * EncCall / Frame: 4-byte length + message header + args struct;      *)
(*   * ParseMsg: bytes -> message header + top-level field spans           *)
(*     (type-directed skipping; values are compared as byte spans);        *)
(*   * the test interfaces (Idl): positional order / names / ids of the    *)
(*     arguments, voidness, oneway-ness and declared exceptions;           *)
(*   * Classify: the reply classification of the property as a case        *)
(*     analysis over (message type, fields present);                       *)
(*   * FrameAt: the stream -> frame reference function of the chunked-read *)
(*     part (the next 4 + sz bytes of the stream, or "truncated").         *)
(*                                                                         *)
(* TLC facts respected: integers are 32 bit (i64 values travel as 8-byte   *)
(* sequences, i32 arithmetic never leaves the signed 32-bit range), no     *)
(* RECURSIVE over bytes (FoldLeft for per-byte/per-element iteration;      *)
(* RECURSIVE only over nesting depth / number of fields).                  *)
(*                                                                         *)
(* Typed values (JSON records in traces):                                  *)
(*   [t |-> "bool", v |-> 0|1]        [t |-> "i32", v |-> int]             *)
(*   [t |-> "i64", v |-> <<8 bytes>>] [t |-> "str", v |-> <<code points>>] *)
(*   [t |-> "struct", f |-> << [id |-> n, v |-> value], ... >>]            *)
(*   [t |-> "list", et |-> elemtag, v |-> << value, ... >>]                *)
(* Long texts / lists / byte streams may come in RUN FORM: instead of `v`   *)
(* a field `r` = << [p |-> pattern, n |-> count], ... >>, meaning the       *)
(* concatenation of each pattern repeated count times (a megabyte of one   *)
(* repeated character is one run).  The codec works on the run form        *)
(* exactly: UTF-8 and the element encoding are homomorphisms over          *)
(* concatenation, so the encoding of `pattern` repeated n times is the     *)
(* encoding of `pattern`, repeated n times (RunLaw in TBinaryWireCheck).   *)
(*   [t |-> "none"]   (unset argument / optional field: not transmitted)   *)
(*   [t |-> "opaque"] (a Python object that is not a value of the expected *)
(*                     type; never equal to any prescribed value)          *)
(***************************************************************************)
EXTENDS Integers, Sequences, SequencesExt, FiniteSets, TLC

\* ---------------------------------------------------------------- integers
U16(n) == <<(n \div 256) % 256, n % 256>>

\* two's complement: \div floors and % is non-negative in TLA+, so this is an
\* arithmetic shift for negative n as well.
I32B(n) == <<(n \div 16777216) % 256, (n \div 65536) % 256, (n \div 256) % 256, n % 256>>

\* signed big-endian 32-bit integer at 0-based offset p of b (p + 4 <= Len(b))
RdI32(b, p) ==
  LET b1 == b[p + 1]  b2 == b[p + 2]  b3 == b[p + 3]  b4 == b[p + 4]
  IN IF b1 < 128 THEN b1 * 16777216 + b2 * 65536 + b3 * 256 + b4
     ELSE 0 - ((255 - b1) * 16777216 + (255 - b2) * 65536 + (255 - b3) * 256 + (255 - b4)) - 1

RdU16(b, p) == b[p + 1] * 256 + b[p + 2]

\* ---------------------------------------------------------------- UTF-8
Utf8Of(c) ==
  IF c < 128 THEN <<c>>
  ELSE IF c < 2048 THEN <<192 + (c \div 64), 128 + (c % 64)>>
  ELSE IF c < 65536 THEN <<224 + (c \div 4096), 128 + ((c \div 64) % 64), 128 + (c % 64)>>
  ELSE <<240 + (c \div 262144), 128 + ((c \div 4096) % 64), 128 + ((c \div 64) % 64), 128 + (c % 64)>>

Utf8(cps) == FoldLeft(LAMBDA acc, c : acc \o Utf8Of(c), <<>>, cps)

\* ---------------------------------------------------------------- run form
\* `pat` repeated n times (linear: a function constructor, no repeated concatenation)
Rep(pat, n) == LET L == Len(pat) IN [i \in 1..(n * L) |-> pat[((i - 1) % L) + 1]]
\* the sequence a run form stands for
ExpandRuns(rs) == FoldLeft(LAMBDA acc, x : acc \o Rep(x.p, x.n), <<>>, rs)
RunsLen(rs) == FoldLeft(LAMBDA acc, x : acc + Len(x.p) * x.n, 0, rs)
\* UTF-8 of a text in run form
Utf8Runs(rs) == FoldLeft(LAMBDA acc, x : acc \o Rep(Utf8(x.p), x.n), <<>>, rs)
HasRuns(v) == "r" \in DOMAIN v

\* ---------------------------------------------------------------- values
TBool == 2   TI32 == 8   TI64 == 10   TString == 11   TStruct == 12   TList == 15
TCall == 1   TReply == 2   TException == 3   TOneway == 4

TypeCode(t) ==
  CASE t = "bool" -> TBool [] t = "i32" -> TI32 [] t = "i64" -> TI64
    [] t = "str" -> TString [] t = "struct" -> TStruct [] t = "list" -> TList
    [] OTHER -> 0

RECURSIVE EncVal(_)
EncFields(fs) ==
  FoldLeft(LAMBDA acc, f : IF f.v.t = "none" THEN acc
                           ELSE acc \o <<TypeCode(f.v.t)>> \o U16(f.id) \o EncVal(f.v),
           <<>>, fs) \o <<0>>
EncVal(v) ==
  CASE v.t = "bool" -> <<v.v>>
    [] v.t = "i32" -> I32B(v.v)
    [] v.t = "i64" -> v.v
    [] v.t = "str" -> LET u == IF HasRuns(v) THEN Utf8Runs(v.r) ELSE Utf8(v.v) IN I32B(Len(u)) \o u
    [] v.t = "struct" -> EncFields(v.f)
    [] v.t = "list" ->
         IF HasRuns(v)
           THEN <<TypeCode(v.et)>> \o I32B(RunsLen(v.r))
                \o FoldLeft(LAMBDA acc, x : acc \o Rep(FoldLeft(LAMBDA a2, y : a2 \o EncVal(y), <<>>, x.p), x.n),
                             <<>>, v.r)
           ELSE <<TypeCode(v.et)>> \o I32B(Len(v.v))
                \o FoldLeft(LAMBDA acc, x : acc \o EncVal(x), <<>>, v.v)

\* A value the codec can encode (no opaque / none at the top, recursively).
RECURSIVE Encodable(_)
Encodable(v) ==
  CASE v.t \in {"bool", "i32", "i64", "str"} -> TRUE
    [] v.t = "struct" -> \A i \in DOMAIN v.f : v.f[i].v.t = "none" \/ Encodable(v.f[i].v)
    [] v.t = "list" -> IF HasRuns(v) THEN \A i \in DOMAIN v.r : \A j \in DOMAIN v.r[i].p : Encodable(v.r[i].p[j])
                       ELSE \A i \in DOMAIN v.v : Encodable(v.v[i])
    [] OTHER -> FALSE

\* ---------------------------------------------------------------- messages
MsgBegin(nameBytes, mtype, seq) ==
  <<128, 1, 0, mtype>> \o I32B(Len(nameBytes)) \o nameBytes \o I32B(seq)

Frame(payload) == I32B(Len(payload)) \o payload

\* ---------------------------------------------------------------- parsing by skipping
\* Skip(b, p, ty): offset after the value of wire type ty that starts at 0-based
\* offset p, or -1 if the bytes are malformed / too short.
RECURSIVE Skip(_, _, _)
RECURSIVE SkipFields(_, _)
SkipFields(b, p) ==
  IF p < 0 \/ p + 1 > Len(b) THEN -1
  ELSE IF b[p + 1] = 0 THEN p + 1
  ELSE IF p + 3 > Len(b) THEN -1
  ELSE SkipFields(b, Skip(b, p + 3, b[p + 1]))
Skip(b, p, ty) ==
  IF p < 0 THEN -1
  ELSE CASE ty = TBool \/ ty = 3 -> IF p + 1 <= Len(b) THEN p + 1 ELSE -1
         [] ty = 6 -> IF p + 2 <= Len(b) THEN p + 2 ELSE -1
         [] ty = TI32 -> IF p + 4 <= Len(b) THEN p + 4 ELSE -1
         [] ty = TI64 \/ ty = 4 -> IF p + 8 <= Len(b) THEN p + 8 ELSE -1
         [] ty = TString ->
              IF p + 4 > Len(b) THEN -1
              ELSE LET n == RdI32(b, p) IN IF n < 0 \/ p + 4 + n > Len(b) THEN -1 ELSE p + 4 + n
         [] ty = TStruct -> SkipFields(b, p)
         [] ty = TList \/ ty = 14 ->
              IF p + 5 > Len(b) THEN -1
              ELSE LET et == b[p + 1]
                       n == RdI32(b, p + 1)
                   IN IF n < 0 \/ n > Len(b) THEN -1
                      ELSE FoldLeft(LAMBDA acc, i : Skip(b, acc, et), p + 5, [i \in 1..n |-> i])
         [] OTHER -> -1

\* Top-level fields of the struct starting at offset p:
\* sequence of [id, ty, from, to] (value bytes are b[from+1 .. to]).
RECURSIVE FieldSpans(_, _, _)
FieldSpans(b, p, acc) ==
  IF p < 0 \/ p + 1 > Len(b) THEN [ok |-> FALSE, fields |-> acc, end |-> -1]
  ELSE IF b[p + 1] = 0 THEN [ok |-> TRUE, fields |-> acc, end |-> p + 1]
  ELSE IF p + 3 > Len(b) THEN [ok |-> FALSE, fields |-> acc, end |-> -1]
  ELSE LET q == Skip(b, p + 3, b[p + 1])
       IN IF q < 0 THEN [ok |-> FALSE, fields |-> acc, end |-> -1]
          ELSE FieldSpans(b, q, Append(acc, [id |-> RdU16(b, p + 1), ty |-> b[p + 1],
                                             from |-> p + 3, to |-> q]))

BadMsg == [ok |-> FALSE, mtype |-> 0, name |-> <<>>, seq |-> 0, fields |-> <<>>, body |-> 0, end |-> -1]

\* strict binary protocol message: version word 0x8001, type in the low byte
ParseMsg(b) ==
  IF Len(b) < 12 \/ b[1] # 128 \/ b[2] # 1 THEN BadMsg
  ELSE LET n == RdI32(b, 4) IN
       IF n < 0 \/ 8 + n + 4 > Len(b) THEN BadMsg
       ELSE LET fs == FieldSpans(b, 12 + n, <<>>) IN
            [ok |-> fs.ok, mtype |-> b[4], name |-> SubSeq(b, 9, 8 + n), seq |-> RdI32(b, 8 + n),
             fields |-> fs.fields, body |-> 12 + n, end |-> fs.end]

Span(b, f) == SubSeq(b, f.from + 1, f.to)

\* ---------------------------------------------------------------- the test interfaces
\* nm = method name in ASCII; args = positional order with field id and keyword name;
\* void = no `success` field in the result struct; exc = declared exceptions (field id, class).
Idl == [
  hi    |-> [nm |-> <<104, 105>>, oneway |-> FALSE, void |-> FALSE, exc |-> <<>>,
             args |-> <<[id |-> 1, k |-> "test_data"]>>],
  echo  |-> [nm |-> <<101, 99, 104, 111>>, oneway |-> FALSE, void |-> FALSE, exc |-> <<>>,
             args |-> <<[id |-> 1, k |-> "s"]>>],
  add   |-> [nm |-> <<97, 100, 100>>, oneway |-> FALSE, void |-> FALSE, exc |-> <<>>,
             args |-> <<[id |-> 1, k |-> "a"], [id |-> 2, k |-> "b"]>>],
  ping  |-> [nm |-> <<112, 105, 110, 103>>, oneway |-> FALSE, void |-> TRUE, exc |-> <<>>,
             args |-> <<>>],
  put   |-> [nm |-> <<112, 117, 116>>, oneway |-> FALSE, void |-> FALSE,
             exc |-> <<[id |-> 1, cls |-> "Boom"], [id |-> 2, cls |-> "Bust"]>>,
             args |-> <<[id |-> 1, k |-> "item"], [id |-> 2, k |-> "note"]>>],
  reset |-> [nm |-> <<114, 101, 115, 101, 116>>, oneway |-> FALSE, void |-> TRUE,
             exc |-> <<[id |-> 1, cls |-> "Boom"]>>,
             args |-> <<[id |-> 1, k |-> "level"]>>],
  fire  |-> [nm |-> <<102, 105, 114, 101>>, oneway |-> TRUE, void |-> TRUE, exc |-> <<>>,
             args |-> <<[id |-> 1, k |-> "s"]>>],
  count |-> [nm |-> <<99, 111, 117, 110, 116>>, oneway |-> FALSE, void |-> FALSE, exc |-> <<>>,
             args |-> <<[id |-> 1, k |-> "names"]>>],
  check |-> [nm |-> <<99, 104, 101, 99, 107>>, oneway |-> FALSE, void |-> FALSE, exc |-> <<>>,
             args |-> <<[id |-> 1, k |-> "b"], [id |-> 3, k |-> "item"]>>],
  twice |-> [nm |-> <<116, 119, 105, 99, 101>>, oneway |-> FALSE, void |-> FALSE, exc |-> <<>>,
             args |-> <<[id |-> 1, k |-> "x"]>>],
  drop  |-> [nm |-> <<100, 114, 111, 112>>, oneway |-> FALSE, void |-> TRUE,
             exc |-> <<[id |-> 1, cls |-> "Boom"]>>,
             args |-> <<[id |-> 1, k |-> "key"]>>],
  \* service Deep (gen_py_x/deep) extends Derived extends Base: a third level of inheritance
  label |-> [nm |-> <<108, 97, 98, 101, 108>>, oneway |-> FALSE, void |-> FALSE, exc |-> <<>>,
             args |-> <<[id |-> 1, k |-> "s"]>>],
  names |-> [nm |-> <<110, 97, 109, 101, 115>>, oneway |-> FALSE, void |-> FALSE, exc |-> <<>>,
             args |-> <<[id |-> 1, k |-> "n"], [id |-> 2, k |-> "prefix"]>>],
  \* service Other (gen_py_x/other): methods NAMED like the ones above (same wire name nm) but with
  \* different argument lists / result types; the key carries the interface, the wire name does not.
  other_hi    |-> [nm |-> <<104, 105>>, oneway |-> FALSE, void |-> FALSE, exc |-> <<>>,
                   args |-> <<[id |-> 1, k |-> "n"]>>],
  other_echo  |-> [nm |-> <<101, 99, 104, 111>>, oneway |-> FALSE, void |-> FALSE, exc |-> <<>>,
                   args |-> <<[id |-> 1, k |-> "v"], [id |-> 2, k |-> "tag"]>>],
  other_add   |-> [nm |-> <<97, 100, 100>>, oneway |-> FALSE, void |-> FALSE, exc |-> <<>>,
                   args |-> <<[id |-> 1, k |-> "a"], [id |-> 2, k |-> "b"]>>],
  other_ping  |-> [nm |-> <<112, 105, 110, 103>>, oneway |-> FALSE, void |-> FALSE, exc |-> <<>>,
                   args |-> <<[id |-> 1, k |-> "token"]>>],
  other_count |-> [nm |-> <<99, 111, 117, 110, 116>>, oneway |-> FALSE, void |-> FALSE, exc |-> <<>>,
                   args |-> <<[id |-> 1, k |-> "upto"]>>],
  other_reset |-> [nm |-> <<114, 101, 115, 101, 116>>, oneway |-> FALSE, void |-> FALSE, exc |-> <<>>,
                   args |-> <<[id |-> 1, k |-> "name"], [id |-> 2, k |-> "hard"]>>],
  other_twice |-> [nm |-> <<116, 119, 105, 99, 101>>, oneway |-> FALSE, void |-> FALSE, exc |-> <<>>,
                   args |-> <<[id |-> 1, k |-> "x"]>>],
  other_drop  |-> [nm |-> <<100, 114, 111, 112>>, oneway |-> FALSE, void |-> TRUE, exc |-> <<>>,
                   args |-> <<[id |-> 1, k |-> "key"], [id |-> 2, k |-> "count"]>>]
]

Methods == DOMAIN Idl

\* ---------------------------------------------------------------- calls
\* pos: typed values in positional order; kw: << [k |-> name, v |-> value] >>.
\* The arguments struct holds, in field-id order, every argument that is set.
ArgValue(m, i, pos, kw) ==
  IF i <= Len(pos) THEN pos[i]
  ELSE LET hits == SelectSeq(kw, LAMBDA x : x.k = Idl[m].args[i].k)
       IN IF hits = <<>> THEN [t |-> "none"] ELSE hits[1].v

ArgFields(m, pos, kw) ==
  [i \in DOMAIN Idl[m].args |-> [id |-> Idl[m].args[i].id, v |-> ArgValue(m, i, pos, kw)]]

\* well-formed call of the interface (harness sanity): not too many positionals,
\* keywords name declared arguments that are not also given positionally.
CallWellFormed(m, pos, kw) ==
  /\ m \in Methods
  /\ Len(pos) <= Len(Idl[m].args)
  /\ \A j \in DOMAIN kw : \E i \in DOMAIN Idl[m].args : i > Len(pos) /\ Idl[m].args[i].k = kw[j].k
  /\ \A i \in DOMAIN pos : pos[i].t = "none" \/ Encodable(pos[i])
  /\ \A j \in DOMAIN kw : kw[j].v.t = "none" \/ Encodable(kw[j].v)

EncCall(m, pos, kw, seq) ==
  MsgBegin(Idl[m].nm, IF Idl[m].oneway THEN TOneway ELSE TCall, seq) \o EncFields(ArgFields(m, pos, kw))

\* ---------------------------------------------------------------- reply classification
\* Case analysis over (message type, fields present).  Result:
\*   [kind |-> "value", ty, bytes]          normal reply: the success field
\*   [kind |-> "error", cls, bytes]         declared exception (cls from Idl) or
\*                                          application exception (EXCEPTION message)
\*   [kind |-> "none"]                      void result
\*   [kind |-> "unspecified"]               outside the property (non-void reply without
\*                                          result, malformed payload, not a reply)
FieldsWithId(msg, id) == SelectSeq(msg.fields, LAMBDA f : f.id = id)

Unspec == [kind |-> "unspecified", cls |-> "", ty |-> 0, bytes |-> <<>>]

Classify(m, payload) ==
  LET msg == ParseMsg(payload) IN
  IF ~msg.ok THEN Unspec
  ELSE IF msg.mtype = TException
    THEN [kind |-> "error", cls |-> "TApplicationException", ty |-> TStruct,
          bytes |-> SubSeq(payload, msg.body + 1, msg.end)]
  ELSE IF msg.mtype # TReply THEN Unspec
  ELSE LET succ == FieldsWithId(msg, 0)
           raised == SelectSeq(Idl[m].exc,
                               LAMBDA x : \E i \in DOMAIN msg.fields :
                                            msg.fields[i].id = x.id /\ msg.fields[i].ty = TStruct)
       IN IF ~Idl[m].void /\ succ # <<>>
            THEN [kind |-> "value", cls |-> "", ty |-> succ[1].ty, bytes |-> Span(payload, succ[1])]
          ELSE IF Len(raised) = 1
            THEN [kind |-> "error", cls |-> raised[1].cls, ty |-> TStruct,
                  bytes |-> Span(payload, FieldsWithId(msg, raised[1].id)[1])]
          ELSE IF Len(raised) > 1 THEN Unspec     \* no server sets two exceptions
          ELSE IF Idl[m].void THEN [kind |-> "none", cls |-> "", ty |-> 0, bytes |-> <<>>]
          ELSE Unspec

\* ---------------------------------------------------------------- framed stream
\* Reference function of the chunked read: the transaction that starts at 0-based
\* offset p of stream s gets the next 4 + sz bytes, whatever the chunking.
FrameAt(s, p) ==
  IF p + 4 > Len(s) THEN [kind |-> "truncated", body |-> <<>>, next |-> Len(s)]
  ELSE LET sz == RdI32(s, p) IN
       IF sz < 0 THEN [kind |-> "negative", body |-> <<>>, next |-> p + 4]
       ELSE IF p + 4 + sz > Len(s) THEN [kind |-> "truncated", body |-> <<>>, next |-> Len(s)]
       ELSE [kind |-> "frame", body |-> SubSeq(s, p + 5, p + 4 + sz), next |-> p + 4 + sz]
=============================================================================
