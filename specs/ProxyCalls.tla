------------------------------ MODULE ProxyCalls ------------------------------
(***************************************************************************)
(* C20 -- calls through a generated client, end to end (property level).   *)
(*                                                                         *)
(* The generated client sits on the real dispatcher; below the dispatcher  *)
(* a sink records every message that arrives and answers it when, and in   *)
(* the order, the environment chooses.  This machine speaks only about     *)
(* what the caller and the sink can see:                                   *)
(*                                                                         *)
(*   Call(cid, form, must, p)   the caller invokes the blocking ("sync")   *)
(*       or the _async ("async") form of a method; p = [m, args, kw] is    *)
(*       the method name and the positional / keyword arguments the caller *)
(*       passed.  Every call of a trace carries a distinct p (the driver   *)
(*       puts a per-call marker among the arguments), so "the sink message *)
(*       of this call" is well defined: the one that carries p.  must =    *)
(*       the method is one every reading of "public" agrees on (only those *)
(*       MUST be proxied; others are checked when they do reach the sink). *)
(*   Recv(seq, p)               the sink received a method-call message    *)
(*   Reply(seq, kind, tok)      the sink answered message seq with a value *)
(*       ("value") or an error ("raise"); tok identifies the object        *)
(*   Ret(cid, kind)             the _async form returned to its caller:    *)
(*       "pending" (a result object, not completed), "completed" (a result *)
(*       object, already completed), anything else = not a result object   *)
(*   Result(cid, kind, tok)     the blocking form returned tok / raised    *)
(*       tok; the result object of the _async form yielded tok / error tok *)
(*   End(opened)                the scenario is over and the loop is       *)
(*       quiescent; opened = 1 if the client's open has completed          *)
(*                                                                         *)
(* Clauses (C20: "a blocking form that returns the call's value or raises  *)
(* its error and an _async form that returns the pending result, and both  *)
(* hand the method name, positional and keyword arguments to the           *)
(* dispatcher unchanged")                                                  *)
(*   C20.forward      every message at the sink is some call's name, args  *)
(*                    and kwargs, unchanged; at the end (open completed,   *)
(*                    loop quiescent) every call of a public method has    *)
(*                    arrived                                              *)
(*   C20.forwardOnce  ... and it is handed down once, not twice            *)
(*   C20.syncResult   the blocking form returns / raises exactly what the  *)
(*                    sink answered to THIS call's message (not before it  *)
(*                    was answered, not another call's answer); once its   *)
(*                    message is answered and the loop is quiescent it has *)
(*                    returned                                             *)
(*   C20.asyncResult  the _async form returns a result object; that object *)
(*                    yields exactly what the sink answered to this call's *)
(*                    message, and has done so once the message is         *)
(*                    answered and the loop is quiescent                   *)
(* Nothing is said about the order in which concurrent calls reach the     *)
(* sink, about calls whose message is never answered, or about time.       *)
(***************************************************************************)
EXTENDS Integers, Sequences, FiniteSets, TLC

VARIABLES calls,      \* cid -> [form, must, p]
          recvs,      \* seq -> p
          replies,    \* seq -> [kind, tok]
          rets,       \* cid -> kind     (async form: what the call returned)
          results     \* cid -> [kind, tok]
cvars == <<calls, recvs, replies, rets, results>>

CInit == calls = <<>> /\ recvs = <<>> /\ replies = <<>> /\ rets = <<>> /\ results = <<>>

PutAt(f, k, v) == [x \in DOMAIN f \cup {k} |-> IF x = k THEN v ELSE f[x]]

CallsOf(p) == {c \in DOMAIN calls : calls[c].p = p}
RecvsOf(c) == {s \in DOMAIN recvs : recvs[s] = calls[c].p}
\* the sink message of call c (RecvsOf(c) has at most one element: C20.forwardOnce)
MsgOf(c) == CHOOSE s \in RecvsOf(c) : TRUE
Answered(c) == RecvsOf(c) # {} /\ MsgOf(c) \in DOMAIN replies
ResultClause(c) == IF calls[c].form = "sync" THEN "C20.syncResult" ELSE "C20.asyncResult"

\* ---------------------------------------------------------------- Call
CallCheck(cid, form, must, p) ==
  IF cid \in DOMAIN calls THEN "harness.freshCall"
  ELSE IF form \notin {"sync", "async"} THEN "harness.callForm"
  ELSE IF CallsOf(p) # {} THEN "harness.uniqueArguments"
  ELSE "ok"
CallUpd(cid, form, must, p) ==
  /\ calls' = PutAt(calls, cid, [form |-> form, must |-> must, p |-> p])
  /\ UNCHANGED <<recvs, replies, rets, results>>

\* ---------------------------------------------------------------- Recv
RecvCheck(seq, p) ==
  IF seq \in DOMAIN recvs THEN "harness.freshMessage"
  ELSE IF CallsOf(p) = {} THEN "C20.forward"
  ELSE IF \E s \in DOMAIN recvs : recvs[s] = p THEN "C20.forwardOnce"
  ELSE "ok"
RecvUpd(seq, p) ==
  /\ recvs' = PutAt(recvs, seq, p)
  /\ UNCHANGED <<calls, replies, rets, results>>

\* ---------------------------------------------------------------- Reply
ReplyCheck(seq, kind, tok) ==
  IF seq \notin DOMAIN recvs THEN "harness.replyToMessage"
  ELSE IF seq \in DOMAIN replies THEN "harness.replyOnce"
  ELSE IF kind \notin {"value", "raise"} THEN "harness.replyKind"
  ELSE "ok"
ReplyUpd(seq, kind, tok) ==
  /\ replies' = PutAt(replies, seq, [kind |-> kind, tok |-> tok])
  /\ UNCHANGED <<calls, recvs, rets, results>>

\* ---------------------------------------------------------------- Ret (async form returned)
RetCheck(cid, kind) ==
  IF cid \notin DOMAIN calls THEN "harness.retOfCall"
  ELSE IF calls[cid].form # "async" \/ cid \in DOMAIN rets THEN "harness.retOnceAsync"
  ELSE IF kind = "pending" THEN "ok"
  \* already completed when handed to the caller: fine if the call's own message has been
  \* answered (what it holds is judged by Result)
  ELSE IF kind = "completed" /\ Answered(cid) THEN "ok"
  ELSE "C20.asyncResult"
RetUpd(cid, kind) ==
  /\ rets' = PutAt(rets, cid, kind)
  /\ UNCHANGED <<calls, recvs, replies, results>>

\* ---------------------------------------------------------------- Result
ResultCheck(cid, kind, tok) ==
  IF cid \notin DOMAIN calls THEN "harness.resultOfCall"
  ELSE IF cid \in DOMAIN results THEN "harness.resultOnce"
  ELSE IF calls[cid].form = "async" /\ cid \notin DOMAIN rets THEN "harness.retBeforeResult"
  ELSE IF RecvsOf(cid) = {}
    \* never reached the sink: a method that need not be proxied answers for itself
    THEN (IF calls[cid].must THEN ResultClause(cid) ELSE "ok")
  ELSE IF ~Answered(cid) THEN ResultClause(cid)
  ELSE IF replies[MsgOf(cid)] = [kind |-> kind, tok |-> tok] THEN "ok"
  ELSE ResultClause(cid)
ResultUpd(cid, kind, tok) ==
  /\ results' = PutAt(results, cid, [kind |-> kind, tok |-> tok])
  /\ UNCHANGED <<calls, recvs, replies, rets>>

\* ---------------------------------------------------------------- End
Owed(form) == {c \in DOMAIN calls : calls[c].form = form /\ Answered(c) /\ c \notin DOMAIN results}
EndCheck(opened) ==
  IF opened = 1 /\ \E c \in DOMAIN calls : calls[c].must /\ RecvsOf(c) = {} THEN "C20.forward"
  ELSE IF Owed("sync") # {} THEN "C20.syncResult"
  ELSE IF Owed("async") # {} THEN "C20.asyncResult"
  ELSE "ok"
EndUpd(opened) == UNCHANGED cvars
=============================================================================
