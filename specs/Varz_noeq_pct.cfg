SPECIFICATION Spec
CONSTANTS
  Kinds <- K_ct
  Tuples <- T2
  Amts = {1, 2}
  GVals = {1, 2}
  SVals = {1, 2, 3}
  Cap = 2
  MaxOps = 4
  Sels = {"default", "tuple"}
  SourceEq = FALSE
  Interleave = FALSE
  MaxAge = 2
  MaxNow = 0
  Ticks = {1}
  Design = "tree"
VIEW View
INVARIANT NoPctViolation
CHECK_DEADLOCK FALSE
